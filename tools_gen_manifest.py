#!/venv/bin/python
"""Regenerates MANIFEST.json from one table (kept in this file so that the
manifest never drifts from the checks that exist)."""
import json, sys

NA = {
 'C01': 'pure function of (source, options): the observable is the return value of one tex2txt() call; no schedule, clock, fault or history to simulate (DESIGN.md §4 C01)',
 'C02': 'pure function of the document; position of copied text is decided by input-space techniques, not by simulation (DESIGN.md §4 C02)',
 'C03': 'pure function of the document (conservation / no leak of hidden text within one call) (DESIGN.md §4 C03)',
 'C04': 'pure function of the document; the shared-token hazard of repeated \\gls lives inside one call, the cross-call half is decided under C17 (DESIGN.md §4 C04)',
 'C05': 'pure function of the document layout (DESIGN.md §4 C05)',
 'C06': 'pure function; its quantifier asks for exhaustive enumeration of short strings, i.e. bounded model checking, not simulation (DESIGN.md §4 C06)',
 'C07': 'the "faults" are prefixes/deletions of the input string of a pure single-threaded function; fuzzing decides this, no seam is involved (DESIGN.md §4 C07)',
 'C09': 'relation between pure calls that differ only in which string reaches the same parser; the faulty read of a definitions file is C08\'s clause (DESIGN.md §4 C09)',
 'C10': 'pure function of the document; rotation state threads through one call only, its survival across calls is a C17 carrier (DESIGN.md §4 C10)',
 'C11': 'pure function of the document (DESIGN.md §4 C11)',
 'C12': 'statement about the return value of one call and a second pure call; the shell-side consequences are decided under C14 (DESIGN.md §4 C12)',
 'C13': 'replace_phrases is a pure function of (text, map, rules) (DESIGN.md §4 C13)',
 'C16': 'generate_html is a pure function of (source, map, matches, context); hostile characters/overlaps are input data, not faults (DESIGN.md §4 C16)',
 'C19': 'pure function of (document, package selection) (DESIGN.md §4 C19)',
 'C20': 'pure regular-expression scans of one string under one option record (DESIGN.md §4 C20)',
}

CHECKS = {}   # filled below as checks come into existence

def check(pid, category, text, note, technique, ref):
    return {
        'property_id': pid,
        'quick_cmd': './check %s --tier quick' % pid,
        'thorough_cmd': './check %s --tier thorough' % pid,
        'evidence_file': '/verif/evidence/%s.json' % pid,
        'replay_cmd_template': './check %s --replay {path}' % pid,
        'engine': 'yalafi-dst',
        'level_claimed': {'category': category, 'text': text, 'design_ref': ref},
        'level_note': note,
        'technique': technique,
    }

def build(claimed):
    import checks_table
    checks = [check(*checks_table.TABLE[p]) for p in claimed]
    na = [{'property_id': p, 'reason': r} for p, r in sorted(NA.items())]
    for p in sorted(checks_table.TABLE):
        if p not in claimed:
            na.append({'property_id': p, 'reason': 'check under construction in this session (will be claimed, see DESIGN.md §4); not yet registered'})
    na.sort(key=lambda d: d['property_id'])
    return {
        'version': 1,
        'setup_cmd': './setup.sh',
        'hooks': {
            'guard': 'YALAFI_VERIF (unused: no hook in /repo is needed, every seam is patched from outside the package)',
            'enable': 'none needed; checks import yalafi from /repo\'s working tree at every invocation (VERIF_REPO overrides the path for the sensitivity self-test)',
            'baseline_off_cmd': 'cd /repo && /venv/bin/python -m pytest -ra -q -p no:cacheprovider --timeout=900 --continue-on-collection-errors',
            'source_commits': [],
            'add_only': True,
        },
        'engines': [{
            'name': 'yalafi-dst',
            'path': '/verif/sim',
            'serves_properties': claimed,
            'kind_free_text': 'deterministic simulation with fault injection: seeded plan generator -> fork-per-run executor running the real yalafi code against simulated file system, clock, proofreader process/HTTP peer and in-memory sockets -> oracle over recorded history; ddmin minimiser; JSON plan = replay file',
        }],
        'checks': checks,
        'not_applicable': na,
        'notes': 'See DESIGN.md. Exit codes of ./check: 0 held, 1 violation (VIOLATION line), 2 harness error (never counts as held). '
                 'Genuine defects found and repaired in /repo as unguarded "fix:" commits (known_findings.json, DESIGN.md section 6): '
                 'dff3adb 85b658a 92568ef 3889ccc 7a570d9 fac23f3 ab540ed a91e832. No hook commit exists: every seam is patched from outside the package.',
    }

if __name__ == '__main__':
    sys.path.insert(0, '/verif')
    import checks_table
    claimed = [p for p in sorted(checks_table.TABLE) if p in checks_table.REGISTERED]
    json.dump(build(claimed), open('/verif/MANIFEST.json', 'w'), indent=1)
    print('MANIFEST.json written; claimed:', claimed)
