#!/bin/bash
# Offline setup: pure Python, nothing to build. Verify interpreter and create dirs.
set -e
cd "$(dirname "$0")"
mkdir -p evidence/replays
/venv/bin/python -c 'import sys; assert sys.version_info[:2] >= (3, 8); import json, hashlib, socketserver, http.server'
echo "setup ok"
