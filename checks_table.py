# pid -> (pid, category, text, level_note, technique, design_ref)
TABLE = {
 'C08': ('C08', 'exploration',
   'Seeded simulation of the one clause of C08 that meets a seam: an unreadable \\LTinput file. The real filter (library call, python -m yalafi CLI with the text as file or on stdin, and the shell) runs against an in-memory file system that injects ENOENT/EACCES/EISDIR/EIO at open, EIO after k characters, undecodable bytes and vanishing files; the oracle checks diagnostic line/column, complete mark, mark position in the map, survival of following text, and that the fault-free twin has neither mark nor diagnostic. Sampling, not proof.',
   'Only the "unreadable \\LTinput file" clause is decided; the seven syntactic problem kinds are pure functions of the input string and are not addressed by this technique. Trusts the SimFS stub (builtins.open wrapper) to represent real OS failures.',
   'deterministic simulation with file-system fault injection', 'DESIGN.md §4 C08'),
 'C14': ('C14', 'exploration',
   'Seeded simulation of the whole proofreading pipeline with every other party simulated: a reactive fake proofreader (LanguageTool over subprocess and HTTP with a seeded boot delay under a simulated clock, TextGears; reordered/duplicated answers), options split between command line and config file, in-memory files and in-memory sockets for --as-server. Oracle from construction: each flagged unique word must be reported at source.find(word) in text/JSON/XML/xml-b/HTML/server outputs, sorted by LaTeX position; the recorded submission history must be one submission per non-blank part with its language code and rule options. Sampling, not proof.',
   'Ground truth is restricted to literally copied unique words in constructs for which exact positions are promised; words in generated text/replacements are not judged. Trusts the fake peer, socket, clock and file-system stubs.',
   'deterministic simulation (simulated peer/transport/clock/files) with history oracle', 'DESIGN.md §4 C14'),
 'C15': ('C15', 'fault_enumeration',
   'Fault injection on the proofreader answer at the k-th invocation of a multi-part run: every byte truncation, every single-field deletion, every single-field retyping over a fixed value set, integer perturbations, in-range (offset,length) sweeps and garbage outputs, times output modes plain/json/xml/xml-b/html and the --as-server emulation, over subprocess, --server my and TextGears answers; outcome must be an in-file report with exit 0 or the shell\'s own diagnostic with exit 1, never a traceback or out-of-file location. The per-base single-fault sweep is complete in the thorough tier; multi-fault combinations are sampled.',
   'Faults are applied to the answer of a well-framed transport; a transport that delivers no answer at all is outside the property. Base scenarios are seeded samples. Trusts the fake peer stub.',
   'deterministic simulation with enumerated fault injection on the peer answer', 'DESIGN.md §4 C15'),
 'C17': ('C17', 'exploration',
   'Seeded, pair-biased histories (a catalogue of state carriers, plus pairs of documents sharing a macro name drawn from the 437 LaTeX inputs of the repository\'s own tests) of tex2txt() calls in one interpreter and of HTTP requests (with duplication, reordering and malformed requests) to one --as-server process, each operation compared exactly with the same operation executed alone in a pristine process (fresh-process reference; cross-validated against a truly fresh interpreter on a sample). Sampling over histories, not proof.',
   'Reference = forked pristine child of a zygote that only imported the modules; equivalence to a fresh interpreter is sampled, not proved. LT peer is available throughout a history.',
   'deterministic simulation over operation histories with fresh-process reference oracle', 'DESIGN.md §4 C17'),
 'C18': ('C18', 'exploration',
   'Seeded inclusion graphs (cycles, self-loops, diamonds, duplicate edges, roots given twice, decoys in comments/skip regions/verbatim, --skip patterns incl. near misses) over an in-memory file system; the recorded open/announce/submit history of the real shell is compared with a reference work-list model (closure, exactly-once, discovery order, no skipped files, termination under an open budget). A separate population injects a missing/unreadable/vanishing file and judges only termination.',
   'Only the --include sentence of C18 is decided; the first sentence (what --extract returns in every context) is a pure function and is not addressed beyond the decoys in the workload. File names contain no blanks.',
   'deterministic simulation over an in-memory file system with reference-model history oracle', 'DESIGN.md §4 C18'),
}
REGISTERED = ['C08', 'C14', 'C15', 'C17', 'C18']
