"""Driver infrastructure shared by all scenarios: seeds, worker pool,
aggregation, minimisation, replay files, evidence, known findings."""

import concurrent.futures
import faulthandler
import hashlib
import json
import multiprocessing
import os
import random
import subprocess
import sys
import time

VERIF = os.path.dirname(os.path.dirname(os.path.abspath(__file__)))
EVIDENCE_DIR = os.environ.get('VERIF_EVIDENCE_DIR') or os.path.join(VERIF, 'evidence')
REPLAY_DIR = os.path.join(EVIDENCE_DIR, 'replays')
KNOWN_FINDINGS = os.path.join(VERIF, 'known_findings.json')

EXIT_OK, EXIT_VIOLATION, EXIT_HARNESS = 0, 1, 2


def run_rng(seed, pid, index, salt=''):
    """The only source of randomness: one integer decides everything."""
    h = hashlib.sha256(('%s:%s:%s:%s' % (seed, pid, index, salt)).encode())
    return random.Random(int.from_bytes(h.digest()[:16], 'big'))


def jobs():
    return max(1, int(os.environ.get('VERIF_JOBS', os.cpu_count() or 1)))


# ---------------------------------------------------------------------
#   results
# ---------------------------------------------------------------------

def ok(digest, **kw):
    d = {'verdict': 'ok', 'digest': digest}
    d.update(kw)
    return d


def violation(vclass, detail, digest, **kw):
    d = {'verdict': 'violation', 'vclass': vclass, 'detail': detail,
         'digest': digest}
    d.update(kw)
    return d


def harness(detail, **kw):
    d = {'verdict': 'harness', 'detail': detail, 'digest': ''}
    d.update(kw)
    return d


def merge_counts(total, part):
    for k, v in (part or {}).items():
        total[k] = total.get(k, 0) + v


# ---------------------------------------------------------------------
#   pool
# ---------------------------------------------------------------------

_pool = None


def _worker_init():
    faulthandler.enable()
    from sim import runner
    runner.preload()


def pool():
    global _pool
    if _pool is None:
        from sim import runner
        runner.preload()
        ctx = multiprocessing.get_context('fork')
        _pool = concurrent.futures.ProcessPoolExecutor(
            max_workers=jobs(), mp_context=ctx, initializer=_worker_init)
    return _pool


def shutdown_pool():
    global _pool
    if _pool is not None:
        _pool.shutdown(wait=True, cancel_futures=True)
        _pool = None


def _eval_task(args):
    modname, plan = args
    import importlib
    mod = importlib.import_module(modname)
    try:
        res = mod.evaluate(plan)
    except BaseException:
        import traceback
        res = harness('exception in evaluate():\n' + traceback.format_exc())
    return res


def map_plans(modname, plans, chunk=4):
    """Evaluates plans in the pool; results in plan order (independent of
    completion order and worker count)."""
    if jobs() == 1:
        return [_eval_task((modname, p)) for p in plans]
    return list(pool().map(_eval_task, [(modname, p) for p in plans],
                           chunksize=chunk))


# ---------------------------------------------------------------------
#   batch aggregation
# ---------------------------------------------------------------------

class Batch:
    def __init__(self, pid, seed, tier, level):
        self.pid = pid
        self.seed = seed
        self.tier = tier
        self.level = level
        self.t0 = time.time()
        self.evaluations = 0        # plans judged
        self.child_runs = 0         # simulated process executions
        self.sim_seconds = 0.0
        self.fired = {}
        self.probes = {}
        self.digests = set()
        self.nontrivial = set()
        self.samples = []
        self.violations = []        # (plan, result)
        self.harness = []
        self.coverage_extra = {}
        self.cross_validated = 0

    def add(self, plan, res):
        self.evaluations += 1
        self.child_runs += res.get('runs', 1)
        self.sim_seconds += res.get('sim_s', 0.0)
        merge_counts(self.fired, res.get('fired'))
        merge_counts(self.probes, res.get('probes'))
        if res.get('digest'):
            self.digests.add(res['digest'])
        nt = res.get('nontrivial')
        if nt:
            self.nontrivial.add(nt if isinstance(nt, str) else json.dumps(nt))
        if res['verdict'] == 'violation':
            self.violations.append((plan, res))
        elif res['verdict'] == 'harness':
            self.harness.append((plan, res))

    def elapsed(self):
        return time.time() - self.t0


# ---------------------------------------------------------------------
#   known findings
# ---------------------------------------------------------------------

def load_known():
    try:
        with open(KNOWN_FINDINGS) as f:
            return json.load(f)
    except FileNotFoundError:
        return {'findings': [], 'fixed': []}


def match_known(pid, res, known):
    """A finding is identified by property + violation class + an optional
    'key' that must be contained in the detail string."""
    for k in known.get('findings', []):
        if k.get('property') != pid:
            continue
        if k.get('vclass') != res.get('vclass'):
            continue
        key = k.get('key')
        if key and key not in json.dumps(res.get('detail'), sort_keys=True):
            continue
        return k
    return None


# ---------------------------------------------------------------------
#   minimisation + replay
# ---------------------------------------------------------------------

def minimise(mod, plan, res, budget=300):
    """Greedy delta debugging over the scenario's own shrink candidates while
    the same violation class persists."""
    vclass = res['vclass']
    spent = 0
    improved = True
    def candidates(pl):
        # a failing shrink step only ends the minimisation, never the check
        it = iter(mod.shrink(pl))
        while True:
            try:
                yield next(it)
            except StopIteration:
                return
            except Exception:
                return

    while improved and spent < budget:
        improved = False
        for cand in candidates(plan):
            if spent >= budget:
                break
            spent += 1
            try:
                r = mod.evaluate(cand)
            except BaseException:
                continue
            if r['verdict'] == 'violation' and r['vclass'] == vclass:
                plan, res = cand, r
                improved = True
                break
    return plan, res, spent


def write_replay(pid, seed, index, plan, res, spent):
    os.makedirs(REPLAY_DIR, exist_ok=True)
    name = '%s-%s-%s.json' % (pid, seed, index)
    path = os.path.join(REPLAY_DIR, name)
    with open(path, 'w') as f:
        # ASCII only: plans may carry unpaired surrogates and other oddities
        json.dump({'property': pid, 'seed': seed, 'run': index,
                   'vclass': res['vclass'], 'detail': res['detail'],
                   'digest': res['digest'], 'minimiser_evaluations': spent,
                   'plan': plan}, f, indent=1, ensure_ascii=True,
                  sort_keys=True)
    return path


def replay_in_fresh_interpreter(pid, path):
    """Re-executes a replay file in a new interpreter; returns
    (reproduced_same_class_and_digest, output)."""
    env = dict(os.environ)
    env['PYTHONHASHSEED'] = '0'
    env['PYTHONDONTWRITEBYTECODE'] = '1'
    env['PYTHONPATH'] = VERIF
    p = subprocess.run([sys.executable, os.path.join(VERIF, 'sim', 'main.py'),
                        pid, '--replay', path], env=env,
                       stdout=subprocess.PIPE, stderr=subprocess.STDOUT,
                       timeout=600)
    out = p.stdout.decode('utf-8', 'replace')
    return (p.returncode == 1 and 'REPRODUCED' in out), out


def do_replay(mod, pid, path):
    with open(path) as f:
        rep = json.load(f)
    plan = rep['plan']
    res = mod.evaluate(plan)
    if res['verdict'] == 'violation':
        same = (res['vclass'] == rep.get('vclass')
                and res['digest'] == rep.get('digest'))
        print('replay: violation class=%s digest=%s' % (res['vclass'],
                                                       res['digest']))
        print('detail: ' + json.dumps(res['detail'], ensure_ascii=False)[:2000])
        if same:
            print('REPRODUCED (same class and event-log digest as recorded)')
        else:
            print('DIFFERS from record: class=%s digest=%s'
                  % (rep.get('vclass'), rep.get('digest')))
        print('VIOLATION property=%s replay=%s' % (pid, path))
        return EXIT_VIOLATION
    if res['verdict'] == 'harness':
        print('replay: harness error: ' + str(res['detail'])[:2000])
        return EXIT_HARNESS
    print('replay: property holds on this plan (digest=%s)' % res['digest'])
    return EXIT_OK


# ---------------------------------------------------------------------
#   cross-validation of the fork-from-zygote model against a truly fresh
#   interpreter (other hash seed, no pool, nothing imported before)
# ---------------------------------------------------------------------

def cross_validate(modname, batch, plans_results, k):
    """Re-evaluates up to k (plan, result) pairs in ONE fresh interpreter and
    compares verdict and event-log digest.  A disagreement is a harness error
    (the simulation would not be a faithful model of a fresh process)."""
    sample = [(p, r) for p, r in plans_results if r['verdict'] == 'ok'][:k]
    if not sample:
        return
    code = ('import sys, json, importlib\n'
            'sys.path.insert(0, %r)\n'
            'mod = importlib.import_module(%r)\n'
            'from sim import runner\n'
            'runner.preload()\n'
            'plans = json.load(sys.stdin)\n'
            'out = []\n'
            'for p in plans:\n'
            '    r = mod.evaluate(p)\n'
            '    out.append([r["verdict"], r.get("digest")])\n'
            'print("XVAL " + json.dumps(out))\n' % (VERIF, modname))
    env = dict(os.environ)
    env.update({'PYTHONHASHSEED': '97531', 'PYTHONDONTWRITEBYTECODE': '1',
                'PYTHONPATH': VERIF, 'VERIF_JOBS': '1'})
    p = subprocess.run([sys.executable, '-c', code], env=env,
                       input=json.dumps([pl for pl, _ in sample]).encode(),
                       stdout=subprocess.PIPE, stderr=subprocess.PIPE)
    line = [l for l in p.stdout.decode().split('\n') if l.startswith('XVAL ')]
    if p.returncode != 0 or not line:
        batch.harness.append((None, harness(
            'cross-validation interpreter failed: ' + p.stderr.decode()[-1500:])))
        return
    got = json.loads(line[0][5:])
    for (pl, r), (v, d) in zip(sample, got):
        if v != r['verdict'] or d != r['digest']:
            batch.harness.append((pl, harness(
                'cross-validation: plan %s gives %s/%s in the pool but %s/%s '
                'in a fresh interpreter' % (pl.get('_index'), r['verdict'],
                                            r['digest'][:12], v, (d or '')[:12]))))
        else:
            batch.cross_validated += 1


# ---------------------------------------------------------------------
#   finishing a batch: violations -> minimise -> replay file -> verdict
# ---------------------------------------------------------------------

def finish(mod, batch, rule, assumptions, components, extra_cov=None,
           exhaustive=False, max_reports=5):
    pid = batch.pid
    known = load_known()
    exit_code = EXIT_OK
    reported = []
    known_hits = {}
    seen_classes = {}
    for plan, res in batch.violations:
        k = match_known(pid, res, known)
        if k is not None:
            known_hits[k['what']] = known_hits.get(k['what'], 0) + 1
            continue
        seen_classes.setdefault(res['vclass'], []).append((plan, res))
    for vclass, items in sorted(seen_classes.items()):
        if len(reported) >= max_reports:
            break
        plan, res = items[0]
        mplan, mres, spent = minimise(mod, plan, res)
        if match_known(pid, mres, known) is not None:
            k = match_known(pid, mres, known)
            known_hits[k['what']] = known_hits.get(k['what'], 0) + len(items)
            continue
        idx = plan.get('_index', 'x')
        path = write_replay(pid, batch.seed, idx, mplan, mres, spent)
        okay, out = replay_in_fresh_interpreter(pid, path)
        if not okay:
            print('HARNESS-ERROR: violation of class %s did not reproduce from '
                  'its replay file %s in a fresh interpreter:\n%s'
                  % (vclass, path, out[-3000:]))
            exit_code = EXIT_HARNESS
            continue
        print('violation class=%s occurrences=%d minimiser_evaluations=%d'
              % (vclass, len(items), spent))
        print('  detail: ' + json.dumps(mres['detail'], ensure_ascii=False)[:1500])
        print('VIOLATION property=%s replay=%s' % (pid, path))
        reported.append({'vclass': vclass, 'replay': path,
                         'occurrences': len(items), 'detail': mres['detail']})
        if exit_code == EXIT_OK:
            exit_code = EXIT_VIOLATION
    for what, n in sorted(known_hits.items()):
        print('KNOWN-FINDING: property=%s %s (hit %d times)' % (pid, what, n))
    if batch.harness:
        print('HARNESS-ERROR: %d run(s) failed inside the harness; first: %s'
              % (len(batch.harness), str(batch.harness[0][1]['detail'])[:3000]))
        exit_code = EXIT_HARNESS
    wall = batch.elapsed()
    cov = {
        'evaluations': batch.evaluations,
        'distinct_nontrivial': len(batch.nontrivial),
        'rule': rule,
        'samples': batch.samples[:4],
        'exhaustive': bool(exhaustive),
        'simulated_process_runs': batch.child_runs,
        'distinct_event_log_digests': len(batch.digests),
        'runs_per_hour': int(batch.child_runs / max(wall, 1e-6) * 3600),
        'plans_per_hour': int(batch.evaluations / max(wall, 1e-6) * 3600),
        'simulated_seconds': round(batch.sim_seconds, 3),
        'faults_fired': dict(sorted(batch.fired.items())),
        'probes': dict(sorted(batch.probes.items())),
        'components': components,
        'oracle_cross_validated': batch.cross_validated,
        'known_findings_hit': known_hits,
        'violations_reported': reported,
        'harness_errors': len(batch.harness),
        'jobs': jobs(),
    }
    cov.update(batch.coverage_extra)
    if extra_cov:
        cov.update(extra_cov)
    ev = {
        'property_id': pid,
        'tier': batch.tier,
        'seed': int(batch.seed),
        'level': batch.level,
        'coverage': cov,
        'assumptions': assumptions,
        'wall_s': round(wall, 2),
        'violations': len(reported),
    }
    os.makedirs(EVIDENCE_DIR, exist_ok=True)
    tmp = os.path.join(EVIDENCE_DIR, pid + '.json.tmp')
    with open(tmp, 'w', encoding='utf-8', errors='backslashreplace') as f:
        json.dump(ev, f, indent=1, ensure_ascii=False, sort_keys=True)
    os.replace(tmp, os.path.join(EVIDENCE_DIR, pid + '.json'))
    print('%s tier=%s seed=%s: %d plans judged, %d simulated process runs, '
          '%d distinct non-trivial, %.1fs wall, %d violation(s), exit %d'
          % (pid, batch.tier, batch.seed, batch.evaluations, batch.child_runs,
             len(batch.nontrivial), wall, len(reported), exit_code))
    return exit_code
