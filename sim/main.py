"""Command line of the simulator: ./check <id> [--tier quick|thorough] [--replay file]"""

import argparse
import importlib
import os
import sys

sys.path.insert(0, os.path.dirname(os.path.dirname(os.path.abspath(__file__))))

SCENARIOS = {'C08': 'sim.scen_c08', 'C14': 'sim.scen_c14', 'C15': 'sim.scen_c15',
             'C17': 'sim.scen_c17', 'C18': 'sim.scen_c18'}

BUDGET = {'quick': 150, 'thorough': 3000}


def main():
    ap = argparse.ArgumentParser()
    ap.add_argument('pid')
    ap.add_argument('--tier', default=os.environ.get('VERIF_TIER') or 'quick',
                    choices=['quick', 'thorough'])
    ap.add_argument('--replay')
    args, rest = ap.parse_known_args()
    if os.environ.get('PYTHONHASHSEED') != '0':
        os.environ['PYTHONHASHSEED'] = '0'
        os.environ['PYTHONDONTWRITEBYTECODE'] = '1'
        os.execv(sys.executable, [sys.executable, '-X', 'faulthandler'] + sys.argv)
    # details of a violation may carry any text (unpaired surrogates, ...)
    for stream in (sys.stdout, sys.stderr):
        try:
            stream.reconfigure(errors='backslashreplace')
        except (AttributeError, ValueError):
            pass
    from sim import core, runner
    if args.pid == 'selftest':
        from sim import selftest
        sys.exit(selftest.main(rest))
    if args.pid not in SCENARIOS:
        print('unknown property ' + args.pid)
        sys.exit(core.EXIT_HARNESS)
    mod = importlib.import_module(SCENARIOS[args.pid])   # may set runner.LEAN
    try:
        runner.preload()
    except Exception as e:
        print('HARNESS-ERROR: cannot import yalafi from %s: %r' % (runner.REPO, e))
        sys.exit(core.EXIT_HARNESS)
    if args.replay:
        try:
            code = core.do_replay(mod, args.pid, args.replay)
        except BaseException:
            import traceback
            traceback.print_exc()
            print('HARNESS-ERROR: replay failed inside the machinery')
            code = core.EXIT_HARNESS
        sys.exit(code)
    seed = int(os.environ.get('VERIF_SEED') or 1)
    budget = float(os.environ.get('VERIF_BUDGET_S') or BUDGET[args.tier])
    try:
        code = mod.run(seed, args.tier, budget)
    except BaseException:
        # a crash of the machinery must never look like a verdict (an uncaught
        # Python exception would end the process with status 1)
        import traceback
        traceback.print_exc()
        print('HARNESS-ERROR: the check itself failed, no verdict')
        code = core.EXIT_HARNESS
    finally:
        try:
            core.shutdown_pool()
        except BaseException:
            pass
    sys.exit(code)


if __name__ == '__main__':
    main()
