"""Seeded generator of LaTeX documents with ground truth known by construction.

A document is a list of fragments.  A fragment is a dict
    {'k': kind, 's': source text,
     'w': [literal words: copied text for which YaLafi promises exact positions],
     'h': [hidden words: must never be submitted],
     'g': [generated / macro-body words: position not judged],
     'lang': LT language code in force for the literal words, or None (main)}
Every word is unique in its document and no word is a substring of another
(shape: start marker + syllables + end marker, markers occur nowhere else), so the position of a word in the
LaTeX source is source.find(word) - an oracle independent of YaLafi's map.

Only this module (and the scenario generators calling it) draws random
numbers; fragments are plain data afterwards.
"""

CONS = 'bdfgklmnprstv'
VOWS_ASCII = 'aeiou'
VOWS_ALL = 'aeiouäжøï𝒶'      # incl. one letter outside the BMP (4 UTF-8 bytes)
# start / end markers: they occur nowhere else in a word, hence no word is a
# substring of another; non-ASCII ones put multi-byte characters at the very
# first / last position of a flagged word
STARTS = 'qþ'
ENDS = 'zßé'
WORD_RE = r'[qþ][^\Wqþzßé\d_]+[zßé]'


class Words:
    """Unique, mutually substring-free words."""

    def __init__(self, rng, nonascii=0.3, vows_all=VOWS_ALL):
        self.rng = rng
        self.n = rng.randrange(0, 5000)
        self.nonascii = nonascii
        self.vows_all = vows_all

    def word(self, ascii_only=False):
        self.n += self.rng.randrange(1, 40)
        n = self.n
        vows = VOWS_ASCII
        if not ascii_only and self.rng.random() < self.nonascii:
            vows = self.vows_all
        # bijective encoding of the counter in consonants (uniqueness), vowels
        # are free decoration
        body = ''
        while True:
            body += CONS[n % len(CONS)] + self.rng.choice(vows)
            n //= len(CONS)
            if n == 0:
                break
        a, b = 'q', 'z'
        if not ascii_only and self.rng.random() < self.nonascii:
            a = self.rng.choice(STARTS)
            b = self.rng.choice(ENDS)
        return a + body + b

    def words(self, k, **kw):
        return [self.word(**kw) for _ in range(k)]


def _sent(ws, end='.'):
    return ' '.join(ws) + end


def frag(k, s, w=(), h=(), g=(), lang=None, **extra):
    d = {'k': k, 's': s, 'w': list(w), 'h': list(h), 'g': list(g), 'lang': lang}
    d.update(extra)
    return d


# ---------------------------------------------------------------------
#   fragment catalogue
#   every function: (rng, W, ctx) -> fragment ; ctx carries document state
# ---------------------------------------------------------------------

def f_plain(rng, W, ctx):
    ws = W.words(rng.randrange(2, 8))
    return frag('plain', _sent(ws) + rng.choice(['\n', ' ', '\n']), ws)


def f_longline(rng, W, ctx):
    ws = W.words(rng.randrange(20, 45))
    return frag('longline', _sent(ws) + '\n', ws)


def f_twolines(rng, W, ctx):
    """Plain words on two lines; 'phrases' names a span from a word of the
    first line to a word of the second one (copied verbatim in between)."""
    a, b = W.words(3), W.words(2)
    s = '%s %s %s\n%s %s.\n' % (a[0], a[1], a[2], b[0], b[1])
    return frag('twolines', s, a + b,
                phrases=[[a[rng.randrange(3)], b[rng.randrange(2)]]])


def f_oddspace(rng, W, ctx):
    """Characters that str.splitlines() treats as line boundaries although
    they are not line ends of the LaTeX file (NEL, LINE/PARAGRAPH SEPARATOR)."""
    a, b = W.words(2), W.words(2)
    chars = ['\x85'] if 'ж' not in W.vows_all else ['\x85', '\u2028', '\u2029']
    c1, c2 = rng.choice(chars), rng.choice(chars)
    s = '%s%s %s %s%s %s.\n' % (a[0], c1, a[1], c2, b[0], b[1])
    return frag('oddspace', s, a + b)


def f_decomposed(rng, W, ctx):
    """Letters written as base letter + combining mark (not NFC): any
    normalisation of the text on its way would shift everything behind it."""
    a, b = W.words(2), W.words(2)
    if 'ж' not in W.vows_all:       # word set restricted to latin-1 files
        return frag('decomposed', _sent(a + b) + '\n', a + b)
    s = '%s Cafe\u0301 nai\u0308ve %s a\u030a %s %s.\n' % (a[0], a[1], b[0], b[1])
    return frag('decomposed', s, a + b)


def f_indent(rng, W, ctx):
    a, b = W.words(2), W.words(2)
    s = '   ' + _sent(a) + '\n\t' + _sent(b) + '\n'
    return frag('indent', s, a + b)


def f_blank(rng, W, ctx):
    return frag('blank', rng.choice(['\n', '\n\n', '\n   \n', '\n\n\n']))


def f_textbf(rng, W, ctx):
    a, b = W.words(2), W.words(1)
    mac = rng.choice(['textbf', 'emph', 'textit', 'underline', 'mbox'])
    s = '\\%s{%s} %s.\n' % (mac, ' '.join(a), b[0])
    return frag('textbf', s, a + b)


def f_nested(rng, W, ctx):
    a, b, c = W.words(1), W.words(1), W.words(1)
    s = '\\emph{%s \\textbf{%s}} %s.\n' % (a[0], b[0], c[0])
    return frag('nested', s, a + b + c)


def f_unknown_macro(rng, W, ctx):
    a, b = W.words(1), W.words(1)
    name = 'zz' + rng.choice('abcde') + rng.choice('fghij')
    s = '\\%s{%s} %s.\n' % (name, a[0], b[0])
    return frag('unknown_macro', s, a + b, unknown=['\\' + name])


def f_group(rng, W, ctx):
    a, b = W.words(2), W.words(1)
    s = '{%s} {\\bfseries %s}.\n' % (' '.join(a), b[0])
    return frag('group', s, a + b)


def f_newcommand(rng, W, ctx):
    g1, g2 = W.words(1, ascii_only=True), W.words(1, ascii_only=True)
    a, b = W.words(1), W.words(1)
    name = 'mc' + ''.join(rng.choice('abcdefgh') for _ in range(4))
    dfn = rng.choice(['\\newcommand{\\%s}[1]{%s #1 %s}',
                      '\\newcommand*{\\%s}[1]{%s #1 %s}',
                      '\\def\\%s#1{%s #1 %s}'])
    s = (dfn % (name, g1[0], g2[0])) + '\n' + '\\%s{%s} %s.\n' % (name, a[0], b[0])
    return frag('newcommand', s, a + b, g=g1 + g2, defines=['\\' + name])


def f_newcommand_opt(rng, W, ctx):
    g1 = W.words(1, ascii_only=True)
    a, b = W.words(1), W.words(1)
    name = 'mo' + ''.join(rng.choice('abcdefgh') for _ in range(4))
    s = ('\\newcommand{\\%s}[2][%s]{#1 #2}\n' % (name, g1[0])
         + '\\%s{%s} \\%s[%s]{x}.\n' % (name, a[0], name, b[0]))
    return frag('newcommand_opt', s, a + b, g=g1, defines=['\\' + name])


def f_footnote(rng, W, ctx):
    a, b, c = W.words(2), W.words(rng.randrange(1, 4)), W.words(2)
    s = '%s\\footnote{%s.} %s.\n' % (' '.join(a), ' '.join(b), ' '.join(c))
    return frag('footnote', s, a + b + c, flow_words=b)


def f_caption(rng, W, ctx):
    a, b = W.words(2), W.words(2)
    env = rng.choice(['figure', 'table'])
    s = ('\\begin{%s}[h]\n\\includegraphics[width=3cm]{pic.png}\n'
         '\\caption{%s.}\n\\end{%s}\n%s.\n'
         % (env, ' '.join(a), env, ' '.join(b)))
    return frag('caption', s, a + b, flow_words=a)


def f_section(rng, W, ctx):
    a, b = W.words(rng.randrange(1, 4)), W.words(2)
    mac = rng.choice(['section', 'subsection', 'section*', 'chapter',
                      'subsubsection'])
    s = '\\%s{%s}\n%s.\n' % (mac, ' '.join(a), ' '.join(b))
    return frag('section', s, a + b)


def f_itemize(rng, W, ctx):
    env = rng.choice(['itemize', 'enumerate'])
    a, b, c = W.words(2), W.words(1), W.words(2)
    s = ('\\begin{%s}\n\\item %s.\n\\item[%s] %s.\n\\end{%s}\n'
         % (env, ' '.join(a), b[0], ' '.join(c), env))
    return frag('itemize', s, a + b + c)


def f_nested_enum(rng, W, ctx):
    a, b, c = W.words(1), W.words(1), W.words(1)
    s = ('\\begin{enumerate}\n\\item %s\n\\begin{enumerate}\n\\item %s\n'
         '\\end{enumerate}\n\\item %s\n\\end{enumerate}\n' % (a[0], b[0], c[0]))
    return frag('nested_enum', s, a + b + c)


def f_inline_math(rng, W, ctx):
    a, b = W.words(2), W.words(2)
    m = rng.choice(['$x+y$', '\\(a^2\\)', '$\\alpha_{ij}$', '$f(x) = 0$',
                    '$a$, $b$ and $c$'])
    s = '%s %s %s.\n' % (' '.join(a), m, ' '.join(b))
    return frag('inline_math', s, a + b, n_inline=m.count('$') // 2 or 1)


def f_math_text(rng, W, ctx):
    a, b, c = W.words(1), W.words(1), W.words(1)
    s = ('%s\n\\begin{equation}\n  x = y \\quad\\text{%s}\\quad z > 0.\n'
         '\\end{equation}\n%s.\n' % (a[0], b[0], c[0]))
    return frag('math_text', s, a + c, g=b, needs=['amsmath'])


def f_display_math(rng, W, ctx):
    a, b = W.words(2), W.words(2)
    m = rng.choice([
        '\\begin{equation}\n  a = b + c.\n\\end{equation}\n',
        '\\[\n  x^2 + y^2 = z^2,\n\\]\n',
        '$$ E = mc^2 $$\n',
        '\\begin{eqnarray}\n  a &=& b \\\\\n  c &=& d.\n\\end{eqnarray}\n',
        '\\begin{align}\n  a &= b, \\\\\n  c &= d.\n\\end{align}\n',
        '\\begin{displaymath} u = v \\end{displaymath}\n',
    ])
    s = '%s\n%s%s.\n' % (' '.join(a), m, ' '.join(b))
    return frag('display_math', s, a + b, n_display=1)


def f_verb(rng, W, ctx):
    a, b, c = W.words(1), W.words(1, ascii_only=True), W.words(1)
    d = rng.choice('|+!')
    s = '%s \\verb%s%s%s %s.\n' % (a[0], d, b[0], d, c[0])
    return frag('verb', s, a + b + c)


def f_verbatim(rng, W, ctx):
    a, b, c = W.words(1), W.words(2, ascii_only=True), W.words(1)
    s = ('%s.\n\\begin{verbatim}\n%s \\input{nofile} $\n\\end{verbatim}\n%s.\n'
         % (a[0], ' '.join(b), c[0]))
    return frag('verbatim', s, a + b + c)


def f_comment(rng, W, ctx):
    a, h, c = W.words(2), W.words(2), W.words(2)
    s = '%s %% %s \\input{nofile}\n%s.\n' % (' '.join(a), ' '.join(h), ' '.join(c))
    return frag('comment', s, a + c, h=h)


def f_skip_region(rng, W, ctx):
    a, h, c = W.words(1), W.words(2), W.words(1)
    s = ('%s.\n%%%%%% LT-SKIP-BEGIN\n%s $ \\input{nofile}\n%%%%%% LT-SKIP-END\n%s.\n'
         % (a[0], ' '.join(h), c[0]))
    return frag('skip_region', s, a + c, h=h)


def f_ltskip(rng, W, ctx):
    a, h, c = W.words(1), W.words(1), W.words(1)
    s = '%s \\LTskip{%s} %s.\n' % (a[0], h[0], c[0])
    return frag('ltskip', s, a + c, h=h)


def f_ltadd(rng, W, ctx):
    a, b, c = W.words(1), W.words(1), W.words(1)
    s = '%s \\LTadd{%s} %s.\n' % (a[0], b[0], c[0])
    return frag('ltadd', s, a + b + c)


def f_label_ref(rng, W, ctx):
    a, b = W.words(2), W.words(2)
    s = ('%s\\label{sec:%s} see \\ref{sec:x} and \\cite{key%d} %s.\n'
         % (' '.join(a), rng.choice('abc'), rng.randrange(9), ' '.join(b)))
    return frag('label_ref', s, a + b)


def f_cite_opt(rng, W, ctx):
    a, b, c = W.words(1), W.words(1), W.words(1)
    s = '%s \\cite[%s]{key} %s.\n' % (a[0], b[0], c[0])
    return frag('cite_opt', s, a + b + c)


def f_specials(rng, W, ctx):
    a = W.words(5)
    s = ("%s -- %s --- ``%s'' %s~%s\\,x \\dots{} \\& \\%% \\$ + 1=2; \\#3?\n" % tuple(a))
    return frag('specials', s, a)


def f_tabular(rng, W, ctx):
    a = W.words(4)
    s = ('\\begin{tabular}{cc}\n%s & %s \\\\\n%s & %s\n\\end{tabular}\n'
         % tuple(a))
    return frag('tabular', s, a)


def f_accent(rng, W, ctx):
    a, b = W.words(1), W.words(1)
    acc = rng.choice(['\\"a', "\\'e", '\\`o', '\\^u', '\\ss{}', '\\o{}', '\\c c'])
    s = '%s %s %s.\n' % (a[0], acc, b[0])
    return frag('accent', s, a + b)


def f_linebreak(rng, W, ctx):
    a, b = W.words(2), W.words(2)
    s = '%s \\\\[2ex]\n%s\\newline x.\n' % (' '.join(a), ' '.join(b))
    return frag('linebreak', s, a + b)


def f_theorem(rng, W, ctx):
    a, b, g = W.words(1), W.words(2), W.words(1, ascii_only=True)
    name = 'th' + ''.join(rng.choice('abcdefgh') for _ in range(3))
    s = ('\\newtheorem{%s}{%s}\n\\begin{%s}[%s]\n%s.\n\\end{%s}\n'
         % (name, g[0].capitalize(), name, a[0], ' '.join(b), name))
    return frag('theorem', s, a + b, g=[g[0].capitalize()], defines=[name])


def f_proof(rng, W, ctx):
    a = W.words(2)
    s = '\\begin{proof}\n%s.\n\\end{proof}\n' % ' '.join(a)
    return frag('proof', s, a, needs=['amsthm'])


def f_unknown_env(rng, W, ctx):
    a = W.words(2)
    name = 'env' + rng.choice('abc')
    s = '\\begin{%s}\n%s.\n\\end{%s}\n' % (name, ' '.join(a), name)
    return frag('unknown_env', s, a, unknown=[name])


def f_usepackage(rng, W, ctx):
    p = rng.choice(['amsmath', 'amsthm', 'xspace', 'graphicx', 'hyperref',
                    'xcolor', 'biblatex', 'listings', 'tikz', 'geometry',
                    'inputenc', 'mathtools', 'unicode-math', 'glossaries',
                    'pgfplots', 'circuitikz'])
    return frag('usepackage', '\\usepackage{%s}\n' % p, package=p)


def f_hyperref(rng, W, ctx):
    a, b = W.words(1), W.words(1)
    s = '\\href{http://example.org/a_b}{%s} \\url{http://x.y/a_b} %s.\n' % (a[0], b[0])
    return frag('hyperref', s, a + b, needs=['hyperref'])


def f_xcolor(rng, W, ctx):
    a, b = W.words(1), W.words(1)
    s = '\\textcolor{red}{%s} \\color{blue} %s.\n' % (a[0], b[0])
    return frag('xcolor', s, a + b, needs=['xcolor'])


LANGS = {'german': 'de-DE', 'french': 'fr', 'russian': 'ru-RU',
         'english': 'en-GB', 'american': 'en-US', 'italian': 'it'}


def f_foreign_short(rng, W, ctx):
    a, b, c = W.words(2), W.words(rng.randrange(1, 3)), W.words(2)
    name = rng.choice([n for n in LANGS if LANGS[n] != ctx['lang']])
    s = '%s \\foreignlanguage{%s}{%s} %s.\n' % (' '.join(a), name,
                                                ' '.join(b), ' '.join(c))
    return frag('foreign_short', s, a + c, ml=True, foreign=[[LANGS[name], b]],
                needs=['babel'])


def f_foreign_long(rng, W, ctx):
    a, b, c = W.words(2), W.words(rng.randrange(4, 9)), W.words(2)
    name = rng.choice([n for n in LANGS if LANGS[n] != ctx['lang']])
    s = '%s.\n\\foreignlanguage{%s}{%s.}\n%s.\n' % (' '.join(a), name,
                                                   ' '.join(b), ' '.join(c))
    return frag('foreign_long', s, a + c, ml=True, foreign=[[LANGS[name], b]],
                needs=['babel'])


def f_otherlanguage(rng, W, ctx):
    a, b, c = W.words(2), W.words(rng.randrange(1, 7)), W.words(2)
    name = rng.choice([n for n in LANGS if LANGS[n] != ctx['lang']])
    env = rng.choice(['otherlanguage', 'otherlanguage*'])
    s = ('%s.\n\\begin{%s}{%s}\n%s.\n\\end{%s}\n%s.\n'
         % (' '.join(a), env, name, ' '.join(b), env, ' '.join(c)))
    return frag('otherlanguage', s, a + c, ml=True, foreign=[[LANGS[name], b]],
                needs=['babel'])


def f_gen_macro_end(rng, W, ctx):
    """A user macro without arguments that generates a word, used as the very
    last token of the fragment (no punctuation, no newline after it)."""
    a, g = W.words(2), W.words(1, ascii_only=True)
    name = 'gme' + ''.join(rng.choice('abcdefgh') for _ in range(4))
    s = '\\newcommand{\\%s}{%s}\n%s %s \\%s' % (name, g[0], a[0], a[1], name)
    return frag('gen_macro_end', s, a, g=g, defines=['\\' + name])


def f_foreign_repeat(rng, W, ctx):
    """The same foreign phrase twice: two byte-identical parts of one
    language.  Its words occur twice in the source ('rep': 2); the k-th
    submission containing such a word belongs to its k-th occurrence."""
    a, b, c = W.words(2), W.words(rng.randrange(1, 6)), W.words(3)
    name = rng.choice([n for n in LANGS if LANGS[n] != ctx['lang']])
    ph = '\\foreignlanguage{%s}{%s.}' % (name, ' '.join(b))
    s = '%s %s %s %s %s %s.\n' % (a[0], ph, a[1], c[0], ph, ' '.join(c[1:]))
    return frag('foreign_repeat', s, a + c, ml=True, foreign=[[LANGS[name], b]],
                needs=['babel'], rep=2)


def f_selectlanguage(rng, W, ctx):
    a, b = W.words(2), W.words(rng.randrange(3, 7))
    name = rng.choice([n for n in LANGS if LANGS[n] != ctx['lang']])
    s = '%s.\n\n\\selectlanguage{%s}\n%s.\n' % (' '.join(a), name, ' '.join(b))
    fr = frag('selectlanguage', s, a, ml=True, foreign=[[LANGS[name], b]],
              needs=['babel'])
    fr['sets_lang'] = LANGS[name]
    return fr


GENERATORS = {
    'plain': f_plain, 'longline': f_longline, 'indent': f_indent,
    'twolines': f_twolines, 'oddspace': f_oddspace, 'decomposed': f_decomposed,
    'blank': f_blank, 'textbf': f_textbf, 'nested': f_nested,
    'unknown_macro': f_unknown_macro, 'group': f_group,
    'newcommand': f_newcommand, 'newcommand_opt': f_newcommand_opt,
    'footnote': f_footnote, 'caption': f_caption, 'section': f_section,
    'itemize': f_itemize, 'nested_enum': f_nested_enum,
    'inline_math': f_inline_math, 'math_text': f_math_text,
    'display_math': f_display_math, 'verb': f_verb, 'verbatim': f_verbatim,
    'comment': f_comment, 'skip_region': f_skip_region, 'ltskip': f_ltskip,
    'ltadd': f_ltadd, 'label_ref': f_label_ref, 'cite_opt': f_cite_opt,
    'specials': f_specials, 'tabular': f_tabular, 'accent': f_accent,
    'linebreak': f_linebreak, 'theorem': f_theorem, 'proof': f_proof,
    'unknown_env': f_unknown_env, 'usepackage': f_usepackage,
    'hyperref': f_hyperref, 'xcolor': f_xcolor,
    'foreign_short': f_foreign_short, 'foreign_long': f_foreign_long,
    'otherlanguage': f_otherlanguage, 'selectlanguage': f_selectlanguage,
    'foreign_repeat': f_foreign_repeat,
}

ML_KINDS = ['foreign_short', 'foreign_long', 'otherlanguage', 'selectlanguage',
            'foreign_repeat']
BASIC_KINDS = [k for k in GENERATORS if k not in ML_KINDS]


def gen_document(rng, n_frags=None, kinds=None, ml=False, lang='en-GB',
                 nonascii=0.3, swarm=True, end_newline=None, W=None,
                 ensure_foreign=False):
    """Returns a list of fragments.  swarm: enable a random subset of kinds."""
    if W is None:
        W = Words(rng, nonascii)
    if kinds is None:
        kinds = list(BASIC_KINDS)
        if swarm:
            k = rng.randrange(3, len(kinds) + 1)
            kinds = rng.sample(kinds, k)
        if 'plain' not in kinds:
            kinds.append('plain')
        if ml:
            kinds += rng.sample(ML_KINDS, rng.randrange(1, len(ML_KINDS) + 1)) * 2
    if n_frags is None:
        n_frags = rng.randrange(1, 25)
    ctx = {'lang': lang}
    frags = []
    forced = rng.randrange(n_frags) if (ml and ensure_foreign) else -1
    for i in range(n_frags):
        k = rng.choice(kinds)
        if i == forced:
            k = rng.choice(['foreign_long', 'foreign_short', 'otherlanguage'])
        fr = GENERATORS[k](rng, W, ctx)
        if ctx['lang'] != lang:
            # after \selectlanguage: literal words are in the new language
            fr['lang'] = ctx['lang']
        if fr.get('sets_lang'):
            ctx['lang'] = fr['sets_lang']
        frags.append(fr)
    if end_newline is None:
        end_newline = rng.random() < 0.8
    if not end_newline and frags:
        # last line without newline
        last = frags[-1]
        while last['s'].endswith('\n'):
            last['s'] = last['s'][:-1]
    return frags


def doc_text(frags):
    return ''.join(f['s'] for f in frags)


def literal_words(frags):
    out = []
    for f in frags:
        out += f['w']
        for lang, ws in f.get('foreign', []):
            out += ws
    return out


def generated_words(frags):
    return [w for f in frags for w in f['g']]


def hidden_words(frags):
    return [w for f in frags for w in f['h']]


def file_text(spec):
    """Text of a SimFS file spec that carries either 'text' or 'frags'."""
    if 'frags' in spec:
        return doc_text(spec['frags'])
    return spec['text']
