"""Simulated world for YaLafi: clock, file system, proofreader peer (process and
HTTP), and in-memory sockets for --as-server.

Everything here is driven by the *plan* (plain JSON data).  Nothing in this
module draws random numbers or reads a real clock: the executor is a pure
function of (plan, code under $VERIF_REPO).
"""

import builtins
import errno
import hashlib
import io
import json
import os
import sys
import urllib.parse

_real_open = builtins.open
_real_stat = os.stat
_real_access = os.access


def _fake_stat(is_dir, size, unreadable=False, mtime=1600000000):
    import stat as st_
    mode = (st_.S_IFDIR | 0o755) if is_dir else \
        (st_.S_IFREG | (0o000 if unreadable else 0o644))
    return os.stat_result((mode, 1, 1, 1, 0, 0, size, mtime, mtime, mtime))


class Abort(BaseException):
    """Raised never; abort goes through World.abort() which _exit()s."""


class World:
    """Owns the event log and all simulated seams of one run."""

    def __init__(self, plan, finish):
        self.plan = plan
        self.events = []            # [seq, kind, detail-dict]
        self.fired = {}             # fault kind -> count (consumed at the seam)
        self.finish = finish        # callback(status) -> never returns
        self.clock = SimClock(self, plan.get('clock', {}))
        self.fs = SimFS(self, plan.get('files', {}), plan.get('open_budget', 200))
        self.peer = SimPeer(self, plan.get('peer', {}))
        self.net = None

    def ev(self, kind, **detail):
        self.events.append([len(self.events), kind, detail])

    def fire(self, kind):
        self.fired[kind] = self.fired.get(kind, 0) + 1

    def abort(self, why):
        self.ev('abort', why=why)
        self.finish('abort:' + why)

    # ---------------------------------------------------------------
    def install(self):
        import subprocess
        import time
        import urllib.request
        builtins.open = self.fs.open
        io.open = self.fs.open
        # the rest of the file seam: code may look before it opens
        # (os.path.exists / isfile / isdir, pathlib, os.access all end here)
        os.stat = self.fs.stat
        os.lstat = self.fs.stat
        os.access = self.fs.access
        time.sleep = self.clock.sleep
        time.time = self.clock.time
        # every clock a deadline may be computed from is the simulated one
        time.monotonic = self.clock.time
        time.perf_counter = self.clock.time
        time.time_ns = lambda: int(self.clock.time() * 1e9)
        time.monotonic_ns = lambda: int(self.clock.time() * 1e9)
        subprocess.run = self.peer.subprocess_run
        subprocess.Popen = self.peer.subprocess_popen
        # the other doors to a child process end at the same peer
        subprocess.check_output = lambda args, **kw: self.peer.subprocess_run(
            args, **kw).stdout
        subprocess.call = lambda args, **kw: (self.peer.subprocess_run(
            args, **kw), 0)[1]
        subprocess.check_call = subprocess.call
        urllib.request.urlopen = self.peer.urlopen
        # ... and so do the other doors to HTTP; anything that would reach the
        # real network is refused at once instead of hanging
        urllib.request.OpenerDirector.open = (
            lambda od, fullurl, data=None, timeout=None:
            self.peer.urlopen(fullurl if not isinstance(fullurl, str)
                              else urllib.request.Request(fullurl, data)))
        import socket as socket_mod

        def refuse(*a, **kw):
            self.ev('real_network_refused')
            raise ConnectionRefusedError(errno.ECONNREFUSED,
                                         'no real network in the simulation')
        socket_mod.create_connection = refuse
        socket_mod.socket.connect = lambda sock, addr: refuse()
        socket_mod.getaddrinfo = lambda *a, **kw: refuse()
        # threads: the scheduler decides who runs. The policy is the simplest
        # legal schedule - a started thread runs to completion at once, on
        # the starter's stack (a thread body that waits for its starter would
        # hang and end as a harness time-out, never as a verdict). The one
        # cross-thread call a server makes on itself, shutdown(), which waits
        # for the serving loop by design, becomes what it means: the flag the
        # loop looks at.
        import threading
        world = self

        def start_inline(th):
            world.fire('thread_run_inline')
            th._started.set()
            target = getattr(th, '_target', None)
            try:
                if (getattr(target, '__name__', '') == 'shutdown' and hasattr(
                        getattr(target, '__self__', None),
                        '_BaseServer__shutdown_request')):
                    target.__self__._BaseServer__shutdown_request = True
                else:
                    th.run()
            except SystemExit:
                pass                    # ends the thread, not the process
            except BaseException:
                try:
                    threading.excepthook(threading.ExceptHookArgs(
                        (*sys.exc_info(), th)))
                except BaseException:
                    pass
            finally:
                th._is_stopped = True
                th._tstate_lock = None
        threading.Thread.start = start_inline
        if self.plan.get('requests') is not None:
            import socket
            import socketserver
            self.net = SimNet(self, self.plan['requests'])
            socket.socket = self.net.socket_factory
            socket.getfqdn = lambda name='': 'localhost'
            net = self.net
            socketserver.BaseServer.serve_forever = (
                lambda srv, poll_interval=0.5: net.serve_forever(srv))


# ---------------------------------------------------------------------
#   clock
# ---------------------------------------------------------------------

class SimClock:
    def __init__(self, world, cfg):
        self.world = world
        self.now = float(cfg.get('start', 1600000000.0))
        self.slept = 0.0

    def sleep(self, d):
        d = max(0.0, float(d))
        self.now += d
        self.slept += d
        self.world.ev('sleep', d=d)

    def time(self):
        return self.now


# ---------------------------------------------------------------------
#   file system
# ---------------------------------------------------------------------

class _FaultyRaw(io.RawIOBase):
    """Raw byte stream that raises EIO once `limit` bytes were delivered."""

    def __init__(self, data, limit, world, path):
        self.data = data
        self.pos = 0
        self.limit = limit
        self.world = world
        self.path = path

    def readable(self):
        return True

    def readinto(self, b):
        if self.limit is not None and self.pos >= self.limit:
            self.world.fire('EIO_read')
            self.world.ev('read_fault', path=self.path, at=self.pos)
            raise OSError(errno.EIO, 'Input/output error (simulated)')
        end = len(self.data)
        if self.limit is not None:
            end = min(end, self.limit)
        n = min(len(b), end - self.pos)
        b[:n] = self.data[self.pos:self.pos + n]
        self.pos += n
        return n


class _CaptureText(io.StringIO):
    def __init__(self, fs, path):
        super().__init__()
        self.fs = fs
        self.path = path

    def close(self):
        if not self.closed:
            self.fs.written[self.path] = self.getvalue()
        super().close()


_OPEN_ERRORS = {
    'ENOENT': (FileNotFoundError, errno.ENOENT, 'No such file or directory'),
    'EACCES': (PermissionError, errno.EACCES, 'Permission denied'),
    'EISDIR': (IsADirectoryError, errno.EISDIR, 'Is a directory'),
    'EIO': (OSError, errno.EIO, 'Input/output error'),
}


class SimFS:
    """Relative string paths are served from the plan only; absolute paths and
    file descriptors pass through to the real open()."""

    def __init__(self, world, files, budget):
        self.world = world
        self.files = files          # path -> {text, enc, fault?}
        self.opens = {}             # path -> count
        self.versions = {}          # path -> how often it was rewritten
        self.total = 0
        self.budget = budget
        self.written = {}

    def update(self, files):
        """Files rewritten on the (simulated) disk: new content, new mtime."""
        for path, spec in files.items():
            self.versions[path] = self.versions.get(path, 0) + 1
            self.files[path] = spec

    def _virtual(self, path):
        """The plan-relative name of a path served from memory, else None."""
        if isinstance(path, os.PathLike):
            path = os.fspath(path)
        if isinstance(path, bytes):
            try:
                path = path.decode('utf-8')
            except UnicodeDecodeError:
                return None
        if not isinstance(path, str) or os.path.isabs(path):
            return None
        return path

    def stat(self, path, *a, **kw):
        name = self._virtual(path)
        if name is None or kw.get('dir_fd') is not None:
            return _real_stat(path, *a, **kw)
        spec = self.files.get(name)
        if spec is None:
            # a directory that (virtually) holds registered files
            if any(n.startswith(name.rstrip('/') + '/') for n in self.files) \
                    or name in ('.', './', '..', ''):
                return _fake_stat(True, 0)
            raise FileNotFoundError(errno.ENOENT, 'No such file or directory',
                                    name)
        fault = spec.get('fault') or {}
        kind = fault.get('kind')
        if kind == 'ENOENT' or (kind == 'vanish' and
                                self.opens.get(name, 0) >= fault.get('after_opens', 1)):
            raise FileNotFoundError(errno.ENOENT, 'No such file or directory',
                                    name)
        if kind == 'EISDIR':
            return _fake_stat(True, 0)
        from sim import docgen
        return _fake_stat(False, len(docgen.file_text(spec).encode(
            spec.get('enc', 'utf-8'))), unreadable=(kind == 'EACCES'),
            mtime=1600000000 + 60 * self.versions.get(name, 0))

    def access(self, path, mode, *a, **kw):
        name = self._virtual(path)
        if name is None:
            return _real_access(path, mode, *a, **kw)
        try:
            st = self.stat(name)
        except OSError:
            return False
        if mode & os.R_OK and not (st.st_mode & 0o444):
            return False
        if mode & os.W_OK:
            return False
        return True

    def open(self, file, mode='r', buffering=-1, encoding=None, errors=None,
             newline=None, closefd=True, opener=None):
        if isinstance(file, os.PathLike):
            file = os.fspath(file)
        if not isinstance(file, str) or os.path.isabs(file):
            return _real_open(file, mode, buffering, encoding, errors,
                              newline, closefd, opener)
        w = self.world
        self.total += 1
        n = self.opens[file] = self.opens.get(file, 0) + 1
        if self.total > self.budget:
            w.ev('open', path=file, mode=mode, res='BUDGET')
            w.abort('open_budget')
        if 'w' in mode or 'a' in mode or '+' in mode:
            w.ev('open', path=file, mode=mode, res='ok-write')
            return _CaptureText(self, file)
        spec = self.files.get(file)
        if spec is None:
            w.ev('open', path=file, mode=mode, res='ENOENT')
            raise FileNotFoundError(errno.ENOENT, 'No such file or directory',
                                    file)
        fault = spec.get('fault') or {}
        kind = fault.get('kind')
        if kind == 'vanish' and n > fault.get('after_opens', 1):
            kind = 'ENOENT'
            w.fire('vanish')
        elif kind == 'vanish':
            kind = None
        if kind in _OPEN_ERRORS:
            cls, code, msg = _OPEN_ERRORS[kind]
            if fault.get('kind') != 'vanish':
                w.fire(kind + '_open')
            w.ev('open', path=file, mode=mode, res=kind)
            raise cls(code, msg + ' (simulated)', file)
        from sim import docgen
        text = docgen.file_text(spec)
        if spec.get('crlf'):
            # a file with Windows line ends: the real open() in text mode
            # (newline=None) translates them, and so does the wrapper below
            text = text.replace('\n', '\r\n')
        data = text.encode(spec.get('enc', 'utf-8'))
        limit = None
        if kind == 'undecodable':
            at = min(fault.get('at', 0), len(data))
            data = data[:at] + bytes.fromhex(fault.get('hex', 'ff')) + data[at:]
            w.fire('undecodable')
        elif kind == 'EIO_read':
            limit = min(fault.get('after', 0), len(data))
        w.ev('open', path=file, mode=mode, res='ok', n=n)
        raw = _FaultyRaw(data, limit, w, file)
        if 'b' in mode:
            return io.BufferedReader(raw)
        return io.TextIOWrapper(io.BufferedReader(raw),
                                encoding=encoding or 'utf-8', errors=errors,
                                newline=newline)


# ---------------------------------------------------------------------
#   the proofreader peer
# ---------------------------------------------------------------------

def subprocess_timeout(args, timeout):
    import subprocess
    return subprocess.TimeoutExpired(args, timeout)


def opts_tag(fields):
    """Short stable tag of the normalised request options; part of every
    message, so that any difference in what was submitted is observable."""
    s = json.dumps(fields, sort_keys=True, ensure_ascii=True)
    return hashlib.sha1(s.encode()).hexdigest()[:8]


def make_match(text, offset, length, tag, cfg, word=None, label=None):
    beg = max(0, offset - 40)
    end = min(len(text), offset + length + 40)
    pre = '...' if beg > 0 else ''
    post = '...' if end < len(text) else ''
    ctx = pre + text[beg:end].replace('\n', ' ') + post
    q1, q2 = ('“', '”') if cfg.get('nonascii', True) else ('"', '"')
    frag = text[offset:offset + length]
    m = {
        'message': 'Possible spelling mistake found: ' + q1
                   + (label if label is not None else frag) + q2
                   + ' [' + tag + ']',
        'shortMessage': 'Spelling mistake',
        'replacements': [{'value': frag.upper().replace('\n', ' ')}, {'value': 'naïve'},
                         {'value': 'x<y&z'}],
        'offset': offset,
        'length': length,
        'context': {'text': ctx, 'offset': offset - beg + len(pre),
                    'length': length},
        'sentence': ctx,
        'type': {'typeName': 'Other'},
        'rule': {
            'id': 'SIM_RULE_' + tag.upper(),
            'description': 'Possible spelling mistake',
            'issueType': 'misspelling',
            'category': {'id': 'TYPOS', 'name': 'Possible Typo'},
        },
        'ignoreForIncompleteSentence': False,
        'contextForSureMatch': 0,
    }
    if cfg.get('subid', True):
        m['rule']['subId'] = '7'
    if cfg.get('urls', True):
        m['rule']['urls'] = [{'value': 'https://example.org/rule?a=1&b=2'}]
    return m


def build_answer(text, language, tag, cfg):
    """A *valid* LanguageTool answer for the text actually received."""
    matches = []
    ranges = cfg.get('set_ranges')
    if ranges is not None:
        for (o, l) in ranges:
            matches.append(make_match(text, o, l, tag, cfg))
    elif cfg.get('flag_regex'):
        import re
        for i, m in enumerate(re.finditer(cfg['flag_regex'], text)):
            if i >= cfg.get('flag_limit', 8):
                break
            matches.append(make_match(text, m.start(), m.end() - m.start(),
                                      tag, cfg))
    else:
        for w in cfg.get('targets', []):
            o = text.find(w)
            if o < 0:
                continue
            matches.append(make_match(text, o, len(w), tag, cfg, w))
            if w in cfg.get('dup', []):
                matches.append(make_match(text, o, len(w), tag, cfg, w))
        for w in cfg.get('eol', []):
            # a match that ends with the line break behind a word
            o = text.find(w)
            if o >= 0 and text[o + len(w):o + len(w) + 1] == '\n':
                matches.append(make_match(text, o, len(w) + 1, tag, cfg,
                                          label=w + '+EOL'))
        for (w1, w2) in cfg.get('phrases', []):
            # a match from one word to another one, possibly across a line break
            o1, o2 = text.find(w1), text.find(w2)
            if 0 <= o1 < o2 and o2 + len(w2) - o1 < 300:
                matches.append(make_match(text, o1, o2 + len(w2) - o1, tag, cfg,
                                          label=w1 + '+' + w2))
    return {
        'software': {'name': 'LanguageTool', 'version': '4.7',
                     'buildDate': '2019-09-28 10:09', 'apiVersion': 1,
                     'premium': False, 'status': ''},
        'warnings': {'incompleteResults': False},
        'language': {'name': 'Simulated', 'code': language,
                     'detectedLanguage': {'name': 'Simulated',
                                          'code': language,
                                          'confidence': 1.0}},
        'matches': matches,
    }


def path_get(obj, path):
    for k in path:
        obj = obj[k]
    return obj


def apply_answer_fault(answer_obj, fault, cfg):
    """Returns the bytes the peer finally emits."""
    def dump(o):
        try:
            return json.dumps(o, ensure_ascii=cfg.get('ensure_ascii', False)
                              ).encode('utf-8')
        except UnicodeEncodeError:
            # an unpaired surrogate travels as \uXXXX escape
            return json.dumps(o, ensure_ascii=True).encode('utf-8')
    faults = fault if isinstance(fault, list) else [fault]
    raw = None
    for f in faults:
        kind = f['kind']
        if kind in ('delete_field', 'retype_field'):
            try:
                parent = path_get(answer_obj, f['path'][:-1])
                key = f['path'][-1]
                if kind == 'delete_field':
                    del parent[key]
                else:
                    parent[key] = f['value']
            except (KeyError, IndexError, TypeError):
                pass    # path vanished through an earlier fault of a multi set
        elif kind == 'garbage':
            raw = bytes.fromhex(f['hex'])
        elif kind == 'upper_escapes':
            # \uXXXX escapes as Java writers emit them (upper-case hex)
            import re
            raw = re.sub(rb'\\u[0-9a-f]{4}',
                         lambda m: b'\\u' + m.group(0)[2:].upper(),
                         raw if raw is not None else dump(answer_obj))
        elif kind == 'truncate':
            raw = (raw if raw is not None else dump(answer_obj))[:f['at']]
        else:
            raise ValueError('unknown answer fault ' + repr(kind))
    if raw is None:
        raw = dump(answer_obj)
    return raw


class _Reply:
    """What urlopen() returns, as far as callers may reasonably use it."""

    def __init__(self, data, url='', incomplete_after=None):
        self.data = data
        self.incomplete_after = incomplete_after
        self.pos = 0
        self.status = 200
        self.code = 200
        self.reason = 'OK'
        self.msg = 'OK'
        self.url = url
        import email.message
        self.headers = email.message.Message()
        self.headers['Content-Type'] = 'application/json'
        self.headers['Content-Length'] = str(len(data))

    def read(self, n=-1):
        if self.incomplete_after is not None:
            # the connection drops inside the body
            import http.client
            k = min(self.incomplete_after, max(len(self.data) - 1, 0))
            e = http.client.IncompleteRead(self.data[:k], len(self.data) - k)
            e.sim_injected = True       # a planned fault, not a simulator bug
            raise e
        if n is None or n < 0:
            out, self.pos = self.data[self.pos:], len(self.data)
        else:
            out = self.data[self.pos:self.pos + n]
            self.pos += len(out)
        return out

    def getcode(self):
        return 200

    def geturl(self):
        return self.url

    def info(self):
        return self.headers

    def getheader(self, name, default=None):
        return self.headers.get(name, default)

    def close(self):
        pass

    def __enter__(self):
        return self

    def __exit__(self, *a):
        return False


class SimPeer:
    def __init__(self, world, cfg):
        self.world = world
        self.cfg = cfg
        self.invocations = 0            # answered text submissions
        self.http = cfg.get('http', {})
        self.started_at = None
        self.popen_calls = 0
        self.urlopen_calls = 0
        self.submit_attempts = 0        # non-probe requests to the LT server
        self.last_attempt_failed = False

    # ---- answer for one text submission (either transport)
    def answer(self, text, language, norm):
        k = self.invocations
        self.invocations += 1
        tag = opts_tag(norm)
        cfg = dict(self.cfg)
        per = self.cfg.get('per_call', {}).get(str(k))
        if per:
            cfg.update(per)
            self.world.fire('answer_set_ranges')
        obj = build_answer(text, language, tag, cfg)
        fault = self.cfg.get('faults', {}).get(str(k))
        if fault:
            for f in (fault if isinstance(fault, list) else [fault]):
                self.world.fire('answer_' + f['kind'])
            if k > 0:
                self.world.fire('answer_fault_at_call_gt0')
            data = apply_answer_fault(obj, fault, cfg)
        else:
            data = json.dumps(obj, ensure_ascii=cfg.get('ensure_ascii', False)
                              ).encode('utf-8')
        self.world.ev('answer', k=k, nbytes=len(data),
                      sha=hashlib.sha1(data).hexdigest()[:12],
                      nmatches=len(obj.get('matches', []))
                      if isinstance(obj.get('matches'), list) else -1)
        return data

    # ---- S1: subprocess.run
    def subprocess_run(self, args, **kw):
        w = self.world
        args = list(args)
        data = kw.get('input')
        text = data.decode('utf-8') if isinstance(data, bytes) else data
        if self.cfg.get('exec_fail'):
            w.fire('exec_fail')
            w.ev('run', argv=args, cwd=kw.get('cwd'), res='ENOENT')
            raise FileNotFoundError(errno.ENOENT, 'No such file or directory',
                                    args[0])
        language = ''
        if '--language' in args:
            i = len(args) - 1 - args[::-1].index('--language')
            if i + 1 < len(args):
                language = args[i + 1]
        norm = {'argv': args[1:]}
        w.ev('submit', transport='run', argv=args, cwd=kw.get('cwd'),
             language=language, text=text)
        out = self.answer(text, language, norm)

        class R:
            pass
        r = R()
        r.stdout = out
        r.stderr = b''
        r.returncode = 0
        r.args = args
        return r

    # ---- S3: subprocess.Popen (local LT server start)
    def _is_server_cmd(self, args):
        return any(a == '--http' or 'HTTPServer' in str(a) or
                   'languagetool-server' in str(a) for a in args)

    def subprocess_popen(self, args, **kw):
        w = self.world
        if isinstance(args, str):
            args = args.split()
        args = list(args)
        if not self._is_server_cmd(args):
            # the proofreader run as a command through Popen (communicate(),
            # check_output(), call() ...): same peer, other door
            return _CommandProcess(self, args, kw)
        self.popen_calls += 1
        w.ev('popen', argv=list(args), cwd=kw.get('cwd'),
             t=self.world.clock.now)
        if self.http.get('popen_fail'):
            w.fire('popen_fail')
            raise FileNotFoundError(errno.ENOENT, 'No such file or directory',
                                    args[0])
        if self.started_at is None:
            self.started_at = self.world.clock.now

        class P:
            """A server process that keeps running."""
            pid = 4242
            returncode = None
            stdout = stderr = stdin = None

            def poll(self):
                return None

            def wait(self, timeout=None):
                raise subprocess_timeout(self.args, timeout)

            def terminate(self):
                pass

            def kill(self):
                pass

            def communicate(self, *a, **kw):
                return (b'', b'')
        p_ = P()
        p_.args = list(args)
        return p_

    def http_up(self):
        if self.http.get('initially_up'):
            return True
        if self.http.get('never_up') or self.started_at is None:
            return False
        return (self.world.clock.now
                >= self.started_at + self.http.get('boot_delay', 0.0))

    # ---- S2: urllib.request.urlopen
    def urlopen(self, request, *a, **kw):
        import urllib.error
        w = self.world
        self.urlopen_calls += 1
        url = request.full_url if hasattr(request, 'full_url') else str(request)
        data = getattr(request, 'data', None) or b''
        fields = urllib.parse.parse_qs(data.decode('ascii'),
                                       keep_blank_values=True)
        fields = {k: v[0] for k, v in fields.items()}
        if 'textgears' in url:
            return self.textgears(url, fields)
        is_local = 'localhost' in url
        if is_local and not self.http_up():
            if not (fields.get('text') == ' '
                    and set(fields) == {'text', 'language'}):
                self.last_attempt_failed = True     # a real request, refused
            w.fire('http_refused')
            w.ev('urlopen', url=url, res='refused', t=w.clock.now)
            raise urllib.error.URLError('Connection refused (simulated)')
        if not is_local and self.http.get('remote_down'):
            w.fire('http_remote_down')
            w.ev('urlopen', url=url, res='down', t=w.clock.now)
            raise urllib.error.URLError('Name or service not known (simulated)')
        if self.http.get('bad_lang'):
            w.fire('http_bad_lang')
            w.ev('urlopen', url=url, res='HTTP400', t=w.clock.now)
            raise urllib.error.HTTPError(url, 400, 'Bad Request', {}, None)
        text = fields.get('text', '')
        language = fields.get('language', '')
        if text == ' ' and set(fields) == {'text', 'language'}:
            # availability probe of start_local_lt_server()
            w.ev('urlopen', url=url, res='probe-ok', t=w.clock.now)
            return _Reply(b'{"matches":[]}')
        # transient failure of a request to a server that is up (message loss /
        # 503): planned by attempt number, never twice in a row
        idx = self.submit_attempts
        self.submit_attempts += 1
        if idx in self.http.get('fail_attempts', []) and \
                not self.last_attempt_failed:
            self.last_attempt_failed = True
            kind = self.http.get('fail_kind', 'reset')
            w.fire('http_transient_' + kind)
            w.ev('urlopen', url=url, res='transient-' + kind, attempt=idx,
                 t=w.clock.now)
            if kind == '503':
                raise urllib.error.HTTPError(url, 503, 'Service Unavailable',
                                             {}, None)
            raise urllib.error.URLError('Connection reset by peer (simulated)')
        self.last_attempt_failed = False
        norm = {k: v for k, v in fields.items() if k != 'text'}
        norm['url'] = url
        # the server is up and has answered the probe, but THIS request is
        # answered badly at the HTTP level, every time it is tried: an error
        # status with a body, a closed connection, a body shorter than
        # announced (the invocation counter does not advance: a repetition of
        # the request meets the same fault)
        tf = self.cfg.get('faults', {}).get(str(self.invocations))
        tf = tf if isinstance(tf, dict) else None
        if tf and tf['kind'] in ('http_status', 'http_disconnect',
                                 'http_incomplete'):
            w.fire('answer_' + tf['kind'])
            w.ev('urlopen', url=url, res=tf['kind'], t=w.clock.now)
            if tf['kind'] == 'http_status':
                import io as _io
                raise urllib.error.HTTPError(
                    url, tf.get('code', 500), 'Error', {},
                    _io.BytesIO(b'Error: ' + str(tf.get('code', 500)).encode()))
            if tf['kind'] == 'http_disconnect':
                import http.client
                raise http.client.RemoteDisconnected(
                    'Remote end closed connection without response')
            w.ev('submit', transport='http', url=url, fields=norm,
                 language=language, text=text)
            data = json.dumps(build_answer(text, language, opts_tag(norm),
                                           dict(self.cfg))).encode()
            return _Reply(data, incomplete_after=tf.get('after', 0))
        w.ev('submit', transport='http', url=url, fields=norm,
             language=language, text=text)
        return _Reply(self.answer(text, language, norm))


def build_textgears_answer(text, tag, cfg):
    errs = []
    ranges = cfg.get('set_ranges')
    if ranges is not None:
        for (o, l) in ranges:
            errs.append({'offset': o, 'length': l, 'bad': text[o:o + l],
                         'type': 'range [%s]' % tag, 'better': ['x']})
    else:
        for t in cfg.get('targets', []):
            o = text.find(t)
            if o < 0:
                continue
            for _ in range(2 if t in cfg.get('dup', []) else 1):
                errs.append({'offset': o, 'length': len(t), 'bad': t,
                             'type': 'found: "%s" [%s]' % (t, tag),
                             'better': [t.upper(), 'naïve']})
        for (w1, w2) in cfg.get('phrases', []):
            o1, o2 = text.find(w1), text.find(w2)
            if 0 <= o1 < o2 and o2 + len(w2) - o1 < 300:
                errs.append({'offset': o1, 'length': o2 + len(w2) - o1,
                             'bad': w1, 'better': ['x'],
                             'type': 'found: "%s+%s" [%s]' % (w1, w2, tag)})
    return {'result': True, 'errors': errs, 'score': 50}


def _textgears(self, url, fields):
    """TextGears transport: other answer shape ({'errors': [...]}), no
    language, no rule options."""
    import urllib.error
    w = self.world
    if self.http.get('remote_down'):
        w.fire('http_remote_down')
        w.ev('urlopen', url=url, res='down', t=w.clock.now)
        raise urllib.error.URLError('Name or service not known (simulated)')
    text = fields.get('text', '')
    norm = {'key': fields.get('key'), 'url': url}
    tag = opts_tag(norm)
    w.ev('submit', transport='textgears', url=url, fields=norm,
         language=None, text=text)
    k = self.invocations
    self.invocations += 1
    cfg = dict(self.cfg)
    per = self.cfg.get('per_call', {}).get(str(k))
    if per:
        cfg.update(per)
        w.fire('answer_set_ranges')
    obj = build_textgears_answer(text, tag, cfg)
    errs = obj['errors']
    data = json.dumps(obj, ensure_ascii=self.cfg.get('ensure_ascii', False)
                      ).encode('utf-8')
    fault = self.cfg.get('faults', {}).get(str(k))
    if fault:
        for f in (fault if isinstance(fault, list) else [fault]):
            w.fire('answer_' + f['kind'])
        if k > 0:
            w.fire('answer_fault_at_call_gt0')
        data = apply_answer_fault(obj, fault, self.cfg)
    w.ev('answer', k=k, nbytes=len(data),
         sha=hashlib.sha1(data).hexdigest()[:12], nmatches=len(errs))
    return _Reply(data)


SimPeer.textgears = _textgears


class _CommandProcess:
    """A proofreader command started through subprocess.Popen: text on
    stdin (communicate(input=...) or stdin.write()), answer on stdout."""

    def __init__(self, peer, args, kw):
        self.peer = peer
        self.args = args
        self.kw = kw
        self.pid = 4243
        self.returncode = None
        self._in = io.BytesIO()
        self._out = None
        self.stdin = self._in if kw.get('stdin') is not None else None
        self.stderr = io.BytesIO(b'') if kw.get('stderr') is not None else None
        self._text_mode = bool(kw.get('text') or kw.get('universal_newlines')
                               or kw.get('encoding'))
        if peer.cfg.get('exec_fail'):
            peer.world.fire('exec_fail')
            peer.world.ev('run', argv=args, cwd=kw.get('cwd'), res='ENOENT')
            raise FileNotFoundError(errno.ENOENT, 'No such file or directory',
                                    args[0])

    def _finish(self, data=None):
        if self._out is None:
            if data is None:
                data = self._in.getvalue() if not self._in.closed else b''
            if isinstance(data, str):
                data = data.encode(self.kw.get('encoding') or 'utf-8')
            r = self.peer.subprocess_run(self.args, input=data or b'',
                                         cwd=self.kw.get('cwd'))
            self._out = r.stdout
            self.returncode = 0
        return self._out

    @property
    def stdout(self):
        if self.kw.get('stdout') is None:
            return None
        return io.BytesIO(self._finish())

    def communicate(self, input=None, timeout=None):
        out = self._finish(input)
        if self.kw.get('stdout') is None:
            out = None
        elif self._text_mode:
            out = out.decode(self.kw.get('encoding') or 'utf-8')
        err = None if self.kw.get('stderr') is None else \
            ('' if self._text_mode else b'')
        return (out, err)

    def poll(self):
        return self.returncode

    def wait(self, timeout=None):
        self._finish()
        return self.returncode

    def terminate(self):
        pass

    def kill(self):
        pass

    def __enter__(self):
        return self

    def __exit__(self, *a):
        return False


# ---------------------------------------------------------------------
#   in-memory network for --as-server
# ---------------------------------------------------------------------

class _ConnReader:
    """What the server reads from a connection. The bytes of one request are
    there from the start; when the server asks for more, the client decides:
    it sends its next request on this connection only if it has received a
    complete response that allows the connection to be kept (HTTP/1.1,
    Content-Length, no 'Connection: close') - otherwise the server sees EOF
    and the request arrives on a connection of its own."""

    def __init__(self, conn):
        self.conn = conn
        self.buf = io.BytesIO(conn.data)
        self.closed = False

    def _more(self):
        nxt = self.conn.net.reuse_connection(self.conn)
        if nxt is None:
            return False
        self.buf = io.BytesIO(nxt)
        return True

    def readline(self, limit=-1):
        b = self.buf.readline(limit)
        if not b and self._more():
            b = self.buf.readline(limit)
        return b

    def read(self, n=-1):
        b = self.buf.read(n)
        if not b and n != 0 and self._more():
            b = self.buf.read(n)
        return b

    def readinto(self, mem):
        b = self.read(len(mem))
        mem[:len(b)] = b
        return len(b)

    def peek(self, n=0):
        pos = self.buf.tell()
        b = self.buf.read(n if n > 0 else 1)
        self.buf.seek(pos)
        return b

    def flush(self):
        pass

    def close(self):
        self.closed = True


class _Conn:
    def __init__(self, net, idx, data):
        self.net = net
        self.idx = idx          # request being served on this connection
        self.data = data
        self.reported = False

    @property
    def sent(self):
        return self.net.sent[self.idx]

    def makefile(self, mode='rb', bufsize=-1):
        return _ConnReader(self)

    def sendall(self, b):
        self.net.sent[self.idx] += bytes(b)

    def send(self, b):
        self.net.sent[self.idx] += bytes(b)
        return len(b)

    def settimeout(self, t):
        pass

    def setsockopt(self, *a):
        pass

    def fileno(self):
        return -1

    def shutdown(self, how):
        pass

    def close(self):
        pass


def response_keeps_connection(resp):
    """A well-behaved client re-uses a connection only after a complete
    HTTP/1.1 response with a Content-Length and without 'Connection: close'."""
    head, sep, body = resp.partition(b'\r\n\r\n')
    if not sep:
        return False
    lines = head.split(b'\r\n')
    if not lines[0].startswith(b'HTTP/1.1 '):
        return False
    hdr = {}
    for ln in lines[1:]:
        k, _, v = ln.partition(b':')
        hdr[k.strip().lower()] = v.strip().lower()
    if hdr.get(b'connection') == b'close':
        return False
    try:
        n = int(hdr[b'content-length'])
    except (KeyError, ValueError):
        return False
    return len(body) >= n


class _ListenSocket:
    def __init__(self, net):
        self.net = net

    def setsockopt(self, *a):
        pass

    def bind(self, addr):
        self.net.addr = addr
        self.net.world.ev('bind', addr=list(addr))

    def getsockname(self):
        return self.net.addr

    def listen(self, n=0):
        pass

    def fileno(self):
        return -1

    def close(self):
        pass

    def accept(self):
        return self.net.next_conn()


def build_request_bytes(req):
    """HTTP request bytes of one planned editor request (pure function)."""
    if req.get('raw_hex') is not None:
        return bytes.fromhex(req['raw_hex'])
    fields = [list(f) for f in req.get('fields', [])]
    if req.get('doc') is not None:
        from sim import docgen
        text = docgen.file_text(req['doc'])
        if req.get('crlf'):
            text = text.replace('\n', '\r\n')    # editor with CRLF buffers
        fields.insert(min(req.get('text_pos', 1), len(fields)), ['text', text])
    body = urllib.parse.urlencode([tuple(f) for f in fields],
                                  encoding='utf-8').encode('ascii')
    fault = req.get('fault') or {}
    kind = fault.get('kind')
    clen = len(body)
    if kind == 'trunc_body':
        body = body[:min(fault.get('at', 0), len(body))]
    elif kind == 'bad_utf8':
        body = body + b'&x=%ff\xff\xfe'
        clen = len(body)
    elif kind == 'bad_percent':
        body = body.replace(b'%', b'%ZZ', 1) if b'%' in body else body + b'%G'
        clen = len(body)
    method = fault.get('method', 'POST') if kind == 'method' else 'POST'
    head = [method + ' ' + req.get('path', '/v2/check') + ' HTTP/1.1',
            'Host: localhost:8082',
            'User-Agent: sim-editor-' + str(req.get('client', 0)),
            'Content-Type: application/x-www-form-urlencoded']
    if kind != 'no_content_length':
        head.append('Content-Length: ' + str(clen))
    head.append('Connection: ' + req.get('conn', 'close'))
    return ('\r\n'.join(head) + '\r\n\r\n').encode('ascii') + body


class SimNet:
    def __init__(self, world, requests):
        self.world = world
        self.requests = requests
        self.next = 0
        self.addr = ('localhost', 0)
        self.conns = []
        self.sent = [b'' for _ in requests]

    def socket_factory(self, *a, **kw):
        return _ListenSocket(self)

    def _arrive(self, reused):
        """Bookkeeping for the arrival of the next planned request."""
        req = self.requests[self.next]
        if req.get('files'):
            # files rewritten on disk before this request arrives
            self.world.fs.update(req['files'])
        fault = (req.get('fault') or {}).get('kind')
        if fault:
            self.world.fire('req_' + fault)
        if req.get('dup_of') is not None:
            self.world.fire('req_duplicate')
        if reused:
            self.world.fire('req_on_kept_connection')
        sys.stderr.flush()
        self.world.ev('accept', idx=self.next, client=req.get('client', 0),
                      fault=fault, err=os.lseek(2, 0, os.SEEK_CUR),
                      **({'kept': True} if reused else {}))
        self.next += 1
        return req

    def _report(self, conn):
        if conn.reported:
            return
        conn.reported = True
        sys.stderr.flush()
        sent = self.sent[conn.idx]
        self.world.ev('response', idx=conn.idx, nbytes=len(sent),
                      sha=hashlib.sha1(sent).hexdigest()[:12],
                      err=os.lseek(2, 0, os.SEEK_CUR))

    def next_conn(self):
        idx = self.next
        req = self._arrive(False)
        conn = _Conn(self, idx, build_request_bytes(req))
        self.conns.append(conn)
        return conn, ('127.0.0.1', 40000 + req.get('client', 0))

    def reuse_connection(self, conn):
        """The server wants to read on: bytes of the next request if the
        client sends it on this connection, else None (EOF)."""
        if self.next >= len(self.requests):
            return None
        req = self.requests[self.next]
        cur = self.requests[conn.idx]
        if not req.get('keep') or req.get('client', 0) != cur.get('client', 0):
            return None
        if not response_keeps_connection(self.sent[conn.idx]):
            return None
        self._report(conn)
        conn.idx = self.next
        conn.reported = False
        req = self._arrive(True)
        return build_request_bytes(req)

    def serve_forever(self, server, poll_interval=0.5):
        # the simulator's scheduler: one accept step per planned connection;
        # like the real loop it runs service_actions() after every step and
        # ends when shutdown() was requested
        done = getattr(server, '_BaseServer__is_shut_down', None)
        if done is not None:
            done.clear()
        try:
            while self.next < len(self.requests):
                if getattr(server, '_BaseServer__shutdown_request', False):
                    break
                server._handle_request_noblock()
                self._report(self.conns[-1])
                server.service_actions()
        finally:
            if hasattr(server, '_BaseServer__shutdown_request'):
                server._BaseServer__shutdown_request = False
            if done is not None:
                done.set()
        self.world.ev('server_idle')

    def responses(self):
        return list(self.sent[:self.next])
