"""C18 (inclusion-tracking sentence) - --include checks exactly the files
reachable through \\input/\\include, each once, in discovery order, without
files matching --skip, and terminates on cyclic inclusion.

Seeded inclusion graphs over the in-memory file system; the recorded
open / announce / proofread history of the real shell is compared with a
reference work-list model.  See DESIGN.md §4 C18.
"""

import copy
import json
import re

from sim import core, docgen, runner, shellscen

PID = 'C18'
LEVEL = 'exploration'
MOD = 'sim.scen_c18'

EDGE_FORMS = [
    '\\input{%s}\n', '\\input{%s}\n', '\\include{%s}\n', '\\input  {%s}\n',
    '{\\input{%s}}\n', '\\textbf{\\input{%s}}\n', '\\zzwrap{\\input{%s}}\n',
    '\\begin{envq}\n\\input{%s}\n\\end{envq}\n',
    '\\begin{itemize}\n\\item \\input{%s}\n\\end{itemize}\n',
    '\\begin{center}\\include{%s}\\end{center}\n', '\\emph{\\input{%s}} ',
    '  \\input{%s}%% trailing comment\n', '\\input{%s}\\input{%s}\n',
]
DECOY_FORMS = [
    ('decoy_comment', '%% \\input{%s}\n'),
    ('decoy_comment', 'text %% see \\include{%s}\n'),
    ('decoy_skip', '%%%%%% LT-SKIP-BEGIN\n\\input{%s}\n%%%%%% LT-SKIP-END\n'),
    ('decoy_verb', '\\verb|\\input{%s}|\n'),
    ('decoy_verbatim', '\\begin{verbatim}\n\\input{%s}\n\\end{verbatim}\n'),
    ('decoy_ltskip', '\\LTskip{\\input{%s}}\n'),
]


def gen_plan(rng, idx, fault_population=False):
    nfiles = rng.choice([1, 2, 2, 3, 3, 4, 4, 5, 6])
    style = rng.choice(['f', 'f', 'named', 'subdir', 'dotted', 'dotslash'])
    pool_named = ['main', 'intro', 'config', 'fig', 'figure', 'chap', 'app',
                  'fig2', 'prefig']
    if style == 'named':
        stems = rng.sample(pool_named, nfiles)
    elif style == 'dotted':
        # dots inside the name: 'sec2.1' must become 'sec2.1.tex'
        pre = rng.choice(['sec', 'part.', 'v1.', 'ch', 'Kap-ä_', 'A.TEX.', 'x.tex.'])
        stems = [pre + '%d.%s' % (i // 2 + 1, 'ab'[i % 2]) if rng.random() < 0.5
                 else pre + '2.%d' % i for i in range(nfiles)]
        if len(set(stems)) < nfiles:
            stems = [pre + '2.%d' % i for i in range(nfiles)]
    elif style == 'dotslash':
        # names that begin with '.' or contain './' and '../' (each file is
        # always referred to by one and the same spelling)
        stems = [rng.choice(['./', '../common/', '.hidden', '../', './sub/',
                             '.../x']) + 'f%d' % i for i in range(nfiles)]
    elif style == 'subdir':
        stems = [('sub/' if rng.random() < 0.5 else '') + 'f%d' % i
                 for i in range(nfiles)]
    else:
        stems = ['f%d' % i for i in range(nfiles)]
    names = [s + '.tex' for s in stems]
    # files in another encoding than UTF-8 (--encoding): the tracking pass and
    # the proofreading pass both have to read them that way
    latin1 = rng.random() < 0.12
    W = docgen.Words(rng, nonascii=0.7, vows_all='aeiouäøï') if latin1 \
        else docgen.Words(rng, nonascii=0.2)
    # decoy targets exist as files, so that following one is observable
    ndecoy = rng.choice([0, 1, 1, 2])
    decoys = ['decoy%d' % i for i in range(ndecoy)]
    files = {}
    edges = {}
    probes = {}
    shape = rng.choice(['random', 'random', 'cycle', 'chain', 'diamond', 'star'])
    use_define = rng.random() < 0.3
    for i, (stem, name) in enumerate(zip(stems, names)):
        targets = []
        local_def = rng.random() < 0.2
        if shape == 'random':
            for _ in range(rng.choice([0, 1, 1, 2, 3, 4])):
                targets.append(rng.randrange(nfiles))
        elif shape == 'cycle':
            targets.append((i + 1) % nfiles)
            if rng.random() < 0.3:
                targets.append(rng.randrange(nfiles))
        elif shape == 'chain':
            if i + 1 < nfiles:
                targets.append(i + 1)
            if rng.random() < 0.3:
                targets.append(rng.randrange(nfiles))     # back edge
        elif shape == 'diamond':
            if i == 0:
                targets += list(range(1, nfiles - 1)) or [0]
            elif i < nfiles - 1:
                targets.append(nfiles - 1)
            elif rng.random() < 0.5:
                targets.append(0)
        elif shape == 'star':
            if i == 0:
                targets += list(range(nfiles))
        frs = []
        edge_list = []
        a = W.words(rng.randrange(1, 4))
        frs.append(docgen.frag('plain', ' '.join(a) + '.\n', a))
        for t in targets:
            with_suffix = rng.random() < 0.3
            ref = names[t] if with_suffix else stems[t]
            form = rng.choice(EDGE_FORMS)
            # wrappers made with \def: from the --define file, or defined in
            # the document itself before their use
            r_ = rng.random()
            if use_define and r_ < 0.35:
                form = '\\incw{%s}\n'
                if ref.startswith('sub/') and rng.random() < 0.5:
                    form = '\\input{\\cdir/%s}\n'
                    ref = ref[4:]
            elif local_def and r_ < 0.5:
                form = '\\locinc{%s}\n'
            if form.count('%s') == 2:
                t2 = rng.randrange(nfiles)
                ref2 = stems[t2]
                frs.append(docgen.frag('edge', form % (ref, ref2), edge=[t, t2]))
                edge_list += [names[t], names[t2]]
            else:
                frs.append(docgen.frag('edge', form % ref, edge=[t]))
                edge_list.append(names[t])
            if rng.random() < 0.4:
                b = W.words(rng.randrange(1, 3))
                frs.append(docgen.frag('plain', ' '.join(b) + '.\n', b))
        for d in decoys:
            if rng.random() < 0.5:
                kind, form = rng.choice(DECOY_FORMS)
                frs.insert(rng.randrange(1, len(frs) + 1),
                           docgen.frag(kind, form % d, decoy_target=d + '.tex'))
        if rng.random() < 0.2:
            frs.insert(rng.randrange(len(frs) + 1), docgen.f_footnote(rng, W, {}))
        if local_def:
            frs[0]['s'] = '\\def\\locinc#1{\\include{#1}}\n' + frs[0]['s']
        first = frs[0]
        rest = frs[1:]
        rng.shuffle(rest)
        ordered = [first] + rest
        if not local_def and rng.random() < 0.3:
            # the file begins with an inclusion right away
            k = next((j for j, fr in enumerate(ordered) if fr.get('edge')), None)
            if k:
                ordered.insert(0, ordered.pop(k))
        r_ = rng.random()
        if r_ < 0.12:
            # editor footer: the file ends inside a comment, without newline
            ordered.append(docgen.frag('footer', rng.choice(
                ['%%% End: ' + stem, '% vim: set ft=tex', '%'])))
        elif r_ < 0.3:
            while ordered[-1]['s'].endswith('\n'):
                ordered[-1]['s'] = ordered[-1]['s'][:-1]
        files[name] = {'frags': ordered}
        # edge order = order of appearance after the shuffle
        order = []
        for fr in files[name]['frags']:
            for t in fr.get('edge', []):
                order.append(names[t])
        edges[name] = order
    for d in decoys:
        a = W.words(2)
        files[d + '.tex'] = {'frags': [docgen.frag('plain', ' '.join(a) + '.\n', a)]}
    nroots = rng.choice([1, 1, 1, 2, 2, 3])
    roots = [names[0]] + [rng.choice(names) for _ in range(nroots - 1)]
    if rng.random() < 0.15:
        roots.append(rng.choice(roots))         # a root named twice
    skip = None
    r = rng.random()
    if r < 0.45:
        kind = rng.choice(['literal', 'literal', 'alt', 'prefix', 'nearmiss',
                           'dotstar'])
        cand = rng.choice(names)
        stem = cand[:-4]
        if kind == 'literal':
            skip = re.escape(cand)
        elif kind == 'alt':
            other = rng.choice(names)
            skip = re.escape(cand) + '|' + re.escape(other)
        elif kind == 'prefix':
            skip = re.escape(stem[:max(1, len(stem) - 1)]) + '.*'
        elif kind == 'nearmiss':
            # anchored regex: a proper prefix / infix must NOT match
            skip = rng.choice([re.escape(stem), re.escape(stem[1:] + '.tex'),
                               re.escape(stem[:-1]) if len(stem) > 1 else 'q',
                               'fig', 'fig.*', 'tex'])
        else:
            skip = '.*' + re.escape(stem[-1]) + '\\.tex'
    argv = ['--lt-command', 'simlt', '--include']
    if latin1:
        argv += ['--encoding', 'latin-1']
        for n in files:
            files[n]['enc'] = 'latin-1'
            files[n]['frags'].insert(
                1 if files[n]['frags'] and files[n]['frags'][0]['s'].startswith(
                    '\\def') else 0,
                docgen.frag('plain', 'Ma\xdf f\xfcr \xd6l.\n', []))
    nosp = rng.random() < 0.15
    if nosp:
        # --no-specials: LT-SKIP comments and \LTskip are inert, what stands
        # inside them IS included (and proofread)
        argv.append('--no-specials')
    if use_define:
        files['cdefs.tex'] = {'frags': [docgen.frag(
            'defs', '\\def\\incw#1{\\input{#1}}\n\\def\\cdir{sub}\n')]}
        argv += ['--define', 'cdefs.tex']
    if skip is not None:
        argv += ['--skip', skip]
    argv += ['--output', rng.choice(['plain', 'plain', 'json', 'xml'])]
    argv += roots
    lit = [w for n in files for w in docgen.literal_words(files[n]['frags'])]
    if use_define:
        probes_hint = 'define'
    peer = {'targets': rng.sample(lit, min(len(lit), 2)), 'dup': []}
    plan = {'kind': 'shell', 'argv': argv, 'files': files, 'peer': peer,
            'latin1': latin1,
            'names': roots, 'roots': roots, 'skip': skip, 'graph_names': names,
            'decoys': [d + '.tex' for d in decoys], 'trace_stderr': True,
            'nosp': nosp,
            'open_budget': 10 * (len(files) + 2), '_index': idx}
    if fault_population:
        victim = rng.choice(names)
        kind = rng.choice(['ENOENT', 'EACCES', 'EISDIR', 'EIO', 'vanish',
                           'EIO_read'])
        f = {'kind': kind}
        if kind == 'vanish':
            f['after_opens'] = 1
        if kind == 'EIO_read':
            f['after'] = rng.randrange(0, 30)
        files[victim]['fault'] = f
        plan['fault_population'] = True
    return plan


def small_graph_plans(nfiles, start_idx):
    """EVERY inclusion graph over `nfiles` files (each ordered pair an edge or
    not, self-loops included) x every non-empty ordered root choice starting
    with file 0 or any single root x {no skip, skip one file}.  Complete, not
    sampled."""
    import itertools
    names = ['g%d.tex' % i for i in range(nfiles)]
    pairs = [(a, b) for a in range(nfiles) for b in range(nfiles)]
    root_sets = [[r] for r in range(nfiles)]
    if nfiles > 1:
        root_sets += [[0, 1], [1, 0], [0, 0]]
    plans = []
    idx = start_idx
    for mask in range(1 << len(pairs)):
        edges = {i: [] for i in range(nfiles)}
        for bit, (a, b) in enumerate(pairs):
            if mask >> bit & 1:
                edges[a].append(b)
        for roots in root_sets:
            for skip in [None] + list(range(nfiles)):
                files = {}
                for i, n in enumerate(names):
                    frs = [docgen.frag('plain', 'w%dq word.\n' % i, [])]
                    for t in edges[i]:
                        frs.append(docgen.frag('edge', '\\input{g%d}\n' % t,
                                               edge=[t]))
                    files[n] = {'frags': frs}
                argv = ['--lt-command', 'simlt', '--include']
                sk = None
                if skip is not None:
                    sk = 'g%d\\.tex' % skip
                    argv += ['--skip', sk]
                rts = [names[r] for r in roots]
                argv += ['--output', 'plain'] + rts
                plans.append({'kind': 'shell', 'argv': argv, 'files': files,
                              'peer': {'targets': [], 'dup': []},
                              'names': rts, 'roots': rts, 'skip': sk,
                              'graph_names': names, 'decoys': [],
                              'trace_stderr': True, 'exhaustive': True,
                              'open_budget': 10 * (nfiles + 2), '_index': idx})
                idx += 1
    return plans


# ---------------------------------------------------------------------
#   reference model (executable, a dozen lines)
# ---------------------------------------------------------------------

def plan_edges(plan):
    names = plan['graph_names']
    edges = {}
    for n, spec in plan['files'].items():
        order = []
        for fr in spec['frags']:
            for t in fr.get('edge', []):
                order.append(names[t])
            if plan.get('nosp') and fr['k'] == 'decoy_skip' \
                    and fr.get('decoy_target'):
                # with --no-specials the LT-SKIP comments are inert: what
                # stands between them is an inclusion, not a decoy.  (\LTskip{
                # \input{x}} stays unfollowed: argument of a declared macro,
                # dropped by extraction mode - outside the claim, §4 C18)
                order.append(fr['decoy_target'])
        edges[n] = order
    return edges


def skipped(plan, fn):
    return plan['skip'] is not None and \
        re.fullmatch(plan['skip'], fn) is not None


def skip_ambiguous(plan, fn):
    """'\\A' + skip + '\\Z' and a full match disagree only for alternations;
    such names are not judged."""
    if plan['skip'] is None:
        return False
    a = re.search(r'\A' + plan['skip'] + r'\Z', fn) is not None
    return a != skipped(plan, fn)


def reach(plan, through_skipped):
    edges = plan_edges(plan)
    seen = []
    todo = list(plan['roots'])
    while todo:
        f = todo.pop(0)
        if f in seen:
            continue
        if skipped(plan, f):
            if through_skipped:
                seen.append(f)
                todo += edges.get(f, [])
            continue
        seen.append(f)
        todo += edges.get(f, [])
    return [f for f in seen if not skipped(plan, f)]


def graph_shape(plan):
    """Canonical shape key: adjacency by first-discovery numbering."""
    edges = plan_edges(plan)
    order = []
    todo = list(dict.fromkeys(plan['roots']))
    while todo:
        f = todo.pop(0)
        if f in order:
            continue
        order.append(f)
        todo += edges.get(f, [])
    num = {f: i for i, f in enumerate(order)}
    adj = [[num[t] for t in edges.get(f, [])] for f in order]
    sk = [int(skipped(plan, f)) for f in order]
    return json.dumps([adj, sk, [num[r] for r in plan['roots']]])


# ---------------------------------------------------------------------
#   oracle over the recorded history
# ---------------------------------------------------------------------

def evaluate(plan):
    obs = runner.execute(plan)
    if runner.is_harness_error(obs):
        return core.harness(obs['status'] + ' argv=' + json.dumps(plan['argv']))
    probes = {}
    kw = {'fired': obs['fired'], 'runs': 1}
    status = obs['status']
    detail = {'argv': plan['argv'], 'status': status,
              'edges': plan_edges(plan)}

    def viol(vclass, **extra):
        detail.update(extra)
        detail['stderr_tail'] = obs['stderr'][-400:]
        return core.violation('C18/' + vclass, detail, obs['digest'],
                              probes=probes, nontrivial=None, **kw)

    if status == 'abort:open_budget':
        return viol('nonterminating', opens=obs.get('opens'))
    if plan.get('fault_population'):
        # outcome not judged, except that the run ends by itself
        probes['fault_population'] = 1
        if status in ('ok', 'exit:0', 'exit:1') or status.startswith('exc:'):
            if obs['fired']:
                probes['fault_consumed'] = 1
            return core.ok(obs['digest'], probes=probes, **kw)
        return viol('status:' + status)
    tb = shellscen.traceback_type(obs['stderr'])
    if status.startswith('exc:') or tb:
        return viol('traceback:' + (status[4:] if status.startswith('exc:') else tb))
    if status not in ('ok', 'exit:0'):
        return viol('status:' + status)
    if any(skip_ambiguous(plan, n) for n in plan['files']):
        probes['skip_ambiguous_unjudged'] = 1
        return core.ok(obs['digest'], probes=probes, **kw)

    # ---- split the history into tracker phase and proofreading phase
    evs = obs['events']
    i0 = next((i for i, e in enumerate(evs) if e[1] == 'stderr'
               and e[2]['text'].startswith('=== checking for file inclusions')),
              None)
    if i0 is None:
        return viol('no-tracking-announcement')
    i1 = next((i for i in range(i0 + 1, len(evs)) if evs[i][1] == 'stderr'), None)
    if i1 is None:
        return viol('no-file-list')
    announced_line = evs[i1][2]['text']
    announced = [s for s in announced_line.rstrip('\n').split(', ') if s]
    tracker_opens = [e[2]['path'] for e in evs[i0:i1] if e[1] == 'open']
    proofread = []
    cur = None
    subs_by_file = {}
    for e in evs[i1 + 1:]:
        if e[1] == 'stderr' and e[2]['text'].startswith('=== '):
            name = e[2]['text'][4:].rstrip('\n')
            if name not in plan['files'] and name not in plan['roots']:
                # some other progress output, not the '=== <file>' line that
                # run_proofreader() prints for the file it is about to check
                continue
            cur = name
            proofread.append(cur)
        elif e[1] == 'submit' and cur is not None:
            subs_by_file.setdefault(cur, []).append(e[2]['text'])

    lower = reach(plan, through_skipped=False)
    upper = reach(plan, through_skipped=True)
    detail.update(announced=announced, tracker_opens=tracker_opens,
                  proofread=proofread, reference_lower=lower,
                  reference_upper=upper)
    # (b) exactly once
    for lab, seq in (('announced', announced), ('opened', tracker_opens),
                     ('proofread', proofread)):
        if len(set(seq)) != len(seq):
            return viol('twice:' + lab)
    # (a) the three views agree, and lie between the bounds
    if not (set(announced) == set(tracker_opens) == set(proofread)):
        return viol('views-disagree')
    got = set(announced)
    for f in got:
        if skipped(plan, f):
            return viol('skipped-file-checked', file=f)
    if not set(lower) <= got:
        return viol('set:missing', missing=sorted(set(lower) - got))
    if not got <= set(upper):
        return viol('set:extra', extra=sorted(got - set(upper)))
    # proofreading happens in discovery order
    if proofread != announced:
        return viol('order:proofread-differs-from-discovery')
    # (c) roots keep their order; others follow an includer
    roots_kept = [r for r in dict.fromkeys(plan['roots']) if r in got]
    pos = {f: i for i, f in enumerate(announced)}
    if sorted(roots_kept, key=lambda f: pos[f]) != roots_kept:
        return viol('order:roots')
    edges = plan_edges(plan)
    for f in announced:
        if f in roots_kept:
            continue
        if not any(f in edges.get(g, []) and pos[g] < pos[f] for g in announced):
            return viol('order:before-includer', file=f)
    # every proofread file was really submitted (its own words)
    for f in proofread:
        words = docgen.literal_words(plan['files'][f]['frags'])
        txt = '\n'.join(subs_by_file.get(f, []))
        if words and not any(w in txt for w in words):
            return viol('not-submitted', file=f)
    # probes
    for f, ts in edges.items():
        if f in ts:
            probes['self_loop'] = 1
        if len(set(ts)) < len(ts):
            probes['dup_edge'] = 1
    if len(plan['roots']) != len(set(plan['roots'])):
        probes['root_twice'] = 1
    if plan['skip'] is not None:
        if any(skipped(plan, n) for n in plan['graph_names']):
            probes['skip_hit'] = 1
        else:
            probes['skip_near_miss'] = 1
    if set(lower) != set(upper):
        probes['reachable_only_through_skipped'] = 1
    for n, spec in plan['files'].items():
        for fr in spec['frags']:
            if fr['k'].startswith('decoy'):
                probes[fr['k']] = 1
    if _has_cycle(edges, got):
        probes['cycle'] = 1
    if '--define' in plan['argv']:
        probes['def_wrappers_from_define_file'] = 1
    if plan.get('latin1'):
        probes['files_in_latin1_with_encoding_option'] = 1
    if plan.get('nosp'):
        probes['no_specials'] = 1
        if any(fr['k'] == 'decoy_skip'
               for sp in plan['files'].values() for fr in sp['frags']):
            probes['no_specials_makes_decoy_an_inclusion'] = 1
    if any('\\locinc' in fr['s'] for sp in plan['files'].values()
           for fr in sp['frags']):
        probes['def_wrapper_in_document'] = 1
    shape = graph_shape(plan)
    return core.ok(obs['digest'], probes=probes, nontrivial=shape, **kw)


def _has_cycle(edges, nodes):
    color = {}

    def dfs(u):
        color[u] = 1
        for v in edges.get(u, []):
            if v not in nodes:
                continue
            if color.get(v) == 1:
                return True
            if v not in color and dfs(v):
                return True
        color[u] = 2
        return False
    return any(dfs(n) for n in nodes if n not in color)


# ---------------------------------------------------------------------

def run(seed, tier, budget_s):
    batch = core.Batch(PID, seed, tier, LEVEL)
    n = 5000 if tier == 'quick' else 300000
    step = 1000
    i = 0
    while i < n and batch.elapsed() < budget_s:
        plans = []
        for j in range(i, min(n, i + step)):
            rng = core.run_rng(seed, PID, j)
            plans.append(gen_plan(rng, j, fault_population=(j % 10 == 9)))
        _res = core.map_plans(MOD, plans, chunk=8)
        for p, r in zip(plans, _res):
            batch.add(p, r)
            if len(batch.samples) < 3 and r.get('nontrivial') and \
                    len(p['files']) >= 3:
                batch.samples.append({'argv': p['argv'],
                                      'edges': plan_edges(p),
                                      'skip': p['skip']})
        if i == 0:
            core.cross_validate(MOD, batch, list(zip(plans, _res)),
                                12 if tier == 'quick' else 60)
        i += step
    # complete sweep of all small graphs (quick: 1-2 files, thorough: 1-3)
    exhaustive = {}
    for nf in ((1, 2) if tier == 'quick' else (1, 2, 3)):
        if batch.elapsed() > budget_s:
            break
        plans = small_graph_plans(nf, 10 ** 6 * nf)
        for p, r in zip(plans, core.map_plans(MOD, plans, chunk=16)):
            batch.add(p, r)
        exhaustive['files_%d' % nf] = len(plans)
    small = [s for s in batch.nontrivial
             if len(json.loads(s)[0]) <= 3]
    rule = ('One case = a seeded inclusion graph over 1-6 in-memory files '
            '(random, cycle, chain, diamond, star shapes; self-loops, '
            'duplicate edges, roots named twice, 13 edge spellings, decoys in '
            'comments / LT-SKIP regions / \\verb / verbatim / \\LTskip, --skip '
            'regexes incl. anchoring near-misses) run through the real shell '
            'with --include.  Non-trivial = fault-free run judged against the '
            'reference work-list model; distinct = distinct canonical graph '
            'shapes (adjacency lists in discovery numbering + skip flags + '
            'root list).  Every 10th case injects one file-system fault and '
            'judges termination only.')
    assumptions = [
        'only the --include sentence of C18 is decided',
        'file names contain no blanks; \\input is kept out of arguments of declared macros',
        'for --skip alternations whose anchored and full-match readings differ the run is not judged',
        'a file reachable only through a skipped file may or may not be checked (statement silent): bounds instead of equality',
    ]
    components = {
        'real': ['yalafi.shell.shell work list (module body)', 'tex2txt extraction mode (parser.init_extractions)',
                 'proofreader.run_proofreader', 'report generators'],
        'stubbed': ['builtins.open for relative paths (in-memory file system with open budget)',
                    'subprocess.run (proofreader)', 'stderr writes recorded as history events'],
    }
    extra = {'distinct_shapes_up_to_3_files': len(small),
             'complete_small_graph_sweeps': exhaustive,
             'complete_small_graph_sweeps_note':
                 'every adjacency relation over n files (self-loops included) '
                 'x root choices {each single file, [0,1], [1,0], [0,0]} x '
                 '{no --skip, --skip of one file}; the seeded population is '
                 'NOT exhaustive, so coverage.exhaustive stays false'}
    return core.finish(__import__(MOD, fromlist=['x']), batch, rule,
                       assumptions, components, extra)


def shrink(plan):
    names = plan['graph_names']
    # drop a root
    if len(plan['roots']) > 1:
        for i in range(len(plan['roots'])):
            c = copy.deepcopy(plan)
            r = c['roots'].pop(i)
            c['names'] = c['roots']
            k = len(c['argv']) - 1 - c['argv'][::-1].index(r)
            del c['argv'][k]
            yield c
    # drop fragments of a file (keeps the first plain one)
    for n in plan['files']:
        frs = plan['files'][n]['frags']
        for i in range(1, len(frs)):
            c = copy.deepcopy(plan)
            del c['files'][n]['frags'][i]
            yield c
    if plan.get('nosp'):
        c = copy.deepcopy(plan)
        c['argv'].remove('--no-specials')
        c['nosp'] = False
        yield c
    # drop the skip option
    if plan['skip'] is not None:
        c = copy.deepcopy(plan)
        i = c['argv'].index('--skip')
        del c['argv'][i:i + 2]
        c['skip'] = None
        yield c
    # drop decoy files
    for d in plan.get('decoys', []):
        if d in plan['files'] and not any(
                d[:-4] in fr['s'] for n in plan['files'] if n != d
                for fr in plan['files'][n]['frags']):
            c = copy.deepcopy(plan)
            del c['files'][d]
            c['decoys'].remove(d)
            yield c
