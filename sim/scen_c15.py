"""C15 - any proofreader answer gives an in-file report or a clean error.

Fault enumeration on the answer of the k-th proofreader invocation, over
seeded base scenarios x output modes.  See DESIGN.md §4 C15.
"""

import copy
import json

from sim import core, docgen, runner, shellscen, world

PID = 'C15'
LEVEL = 'fault_enumeration'
MOD = 'sim.scen_c15'

RETYPE_VALUES = [None, True, 0, -1, 7, 10 ** 6, 10 ** 30, 1.5, '', 'x', [], {}, [1],
                 {'a': 1}, 'l1\nl2 <br>\n"q\'&amp;',
                 'C:\\dir \\emph{x} \\1 \\g<0> %s {0} $&',
                 float('inf'), float('nan'), '5', False, [[]], -0.0,
                 'cut \ud83d', '\udc00x']      # unpaired surrogates

GARBAGE = [
    b'', b' \n\t ', b'null', b'[]', b'42', b'"matches"', b'{}',
    b'{"matches": null}', b'{"matches": {}}', b'{"matches": [null]}',
    b'{"matches": [[]]}', b'{"matches": [1, 2]}', b'{"matches": ["x"]}',
    b'{"matches": [{}]}', b'{"matches": []}{"matches": []}',
    b'Exception in thread "main" java.lang.OutOfMemoryError: Java heap space\n'
    b'\tat org.languagetool.JLanguageTool.check(JLanguageTool.java:1)\n',
    b'<html><body><h1>502 Bad Gateway</h1></body></html>',
    b'\x00\x00\x00\x00', b'\xff\xfe{\x00}\x00', b'\xef\xbb\xbf{"matches": []}',
    b'{"matches": [], "matches": 5}', b'{"matches": [] ',
    b'Error: Unknown language code\n', b'\xc3', b'{"matches": [{"offset": 1e400}]}',
    b'{"matches": [{"offset": NaN, "length": Infinity}]}',
    # syntactically valid JSON nested deeper than the interpreter's recursion
    # limit (the decoder raises RecursionError, not a ValueError)
    b'[' * 6000 + b']' * 6000,
    b'{"matches": ' + b'[' * 6000 + b']' * 6000 + b'}',
    b'{"matches": [{"offset": ' + b'{"a":' * 6000 + b'1' + b'}' * 6000 + b'}]}',
]


HOSTILE_URLS = ['http://[2001:db8::1', 'https://example.org]/a',
                'http://[rules]/EN_A_VS_AN', 'javascript:alert(1)',
                'http://a b/%zz?x=\u00e4#"', '//x', 'http://\x00/', 'http://:80:90/']

HTTP_FAULTS = [{'kind': 'http_status', 'code': c} for c in (400, 413, 500, 503)] \
    + [{'kind': 'http_disconnect'}] \
    + [{'kind': 'http_incomplete', 'after': a} for a in (0, 7, 200)]

SYMBOL_ZOO = (
    'Kosten 5\\% und A\\&B, \\$3, \\#4, a\\_b, x\\,y, \\{c\\} z\\\\\n'
    '\\"a \\\'e \\`o \\^u \\~n \\ss{} \\o{} \\c c \\LaTeX{} \\TeX\\ und \\dots{} so.\n'
    "``quote'' -- dash --- `s' a~b \\  c\\-d \\@. x\\/y\n"
    '$a$ \\(b\\) \\emph{kurs} \\textbf{f}\\footnote{Fuss \\% n.} \\verb|x y| e\n'
    '\\begin{itemize}\n\\item[] a \\item b\n\\end{itemize}\n'
    'Ende \\S 3 \\P 4 \\&\n')


# ---------------------------------------------------------------------
#   evaluation of one plan (runs in a pool worker)
# ---------------------------------------------------------------------

def evaluate(plan):
    obs = runner.execute(plan)
    if runner.is_harness_error(obs):
        return core.harness(obs['status'] + ' fault=' + json.dumps(plan['peer'].get('faults')) + ' argv=' + json.dumps(plan['argv']))
    status = obs['status']
    stderr = obs['stderr']
    fired = obs['fired']
    res_kw = {'fired': fired, 'sim_s': obs.get('slept', 0.0), 'runs': 1}
    probes = {}
    names = plan['names']
    texts = {n: shellscen.shell_text(docgen.file_text(plan['files'][n]))
             for n in names}
    server = plan['mode'] == 'server'
    if plan.get('_want_subs'):
        res_kw['subs'] = [[s['text'], s['language'],
                           world.opts_tag({'argv': s['argv'][1:]})
                           if s.get('transport') == 'run'
                           else world.opts_tag(dict(s['fields']))]
                          for s in shellscen.submissions(obs)]
    answer_faulted = any(k.startswith('answer_') for k in fired)
    nontrivial = obs['digest'] if answer_faulted else None
    detail = {'status': status, 'mode': plan['mode'],
              'transport': plan.get('transport', 'run'),
              'fault': plan['peer'].get('faults'),
              'ranges': plan['peer'].get('per_call'),
              'stderr_tail': stderr[-600:]}
    probes['mode_' + plan['mode']] = 1
    probes['transport_' + plan.get('transport', 'run')] = 1

    tb = shellscen.traceback_type(stderr)
    if status.startswith('exc:') or tb:
        typ = status[4:] if status.startswith('exc:') else tb
        return core.violation('C15/traceback:' + typ, detail, obs['digest'],
                              probes=probes, nontrivial=nontrivial, **res_kw)
    if status in ('ok', 'exit:0'):
        complete = True
        probes['report_ok'] = 1
    elif status == 'exit:1':
        complete = False
        probes['clean_fatal'] = 1
        if '*** yalafi.shell: ' not in stderr:
            return core.violation('C15/exit1-without-diagnostic', detail,
                                  obs['digest'], probes=probes,
                                  nontrivial=nontrivial, **res_kw)
        if obs['stdout'].strip():
            probes['partial_report'] = 1
    else:
        return core.violation('C15/status:' + status, detail, obs['digest'],
                              probes=probes, nontrivial=nontrivial, **res_kw)
    if server:
        probs = check_server_responses(plan, obs, complete)
    else:
        probs = shellscen.check_locations_in_file(plan['mode'], obs['stdout'],
                                                  texts, names, complete)
    if probs:
        detail['problems'] = probs[:5]
        key = probs[0].split(':')[0]
        return core.violation('C15/outside-file:' + key, detail, obs['digest'],
                              probes=probes, nontrivial=nontrivial, **res_kw)
    return core.ok(obs['digest'], probes=probes, nontrivial=nontrivial,
                   **res_kw)


def check_server_responses(plan, obs, complete):
    """--as-server: every answered request carries matches inside the
    request text; an unanswered one is only acceptable as the last act of a
    server that stopped with its diagnostic."""
    probs = []
    resps = obs.get('responses', [])
    reqs = plan['requests']
    for i, raw in enumerate(resps):
        text = docgen.file_text(reqs[i]['doc'])
        if not raw:
            if complete or i < len(resps) - 1:
                probs.append('server: request %d got no response' % i)
            continue
        head, _, body = raw.partition('\r\n\r\n')
        if not (head.startswith('HTTP/1.0 200') or head.startswith('HTTP/1.1 200')):
            probs.append('server: request %d: %r' % (i, head[:40]))
            continue
        try:
            doc = json.loads(body.encode('latin-1').decode('utf-8'))
        except ValueError:
            probs.append('server: body of response %d is not JSON' % i)
            continue
        for m in doc.get('matches', []):
            o, l = m.get('offset'), m.get('length')
            if not (isinstance(o, int) and isinstance(l, int)):
                probs.append('server: offset/length not integers')
            elif not 0 <= o < max(len(text), 1):
                probs.append('server: offset %d outside request text (len %d)'
                             % (o, len(text)))
            elif not 0 <= o + l <= len(text):
                probs.append('server: offset+length %d outside request text'
                             % (o + l))
    if complete and len(resps) != len(reqs):
        probs.append('server: %d responses for %d requests' % (len(resps),
                                                               len(reqs)))
    return probs


def answer_obj(b, text, lang, tag):
    if b.get('transport') == 'textgears':
        return world.build_textgears_answer(text, tag, b['peer'])
    return world.build_answer(text, lang, tag, b['peer'])


# ---------------------------------------------------------------------
#   fault enumeration
# ---------------------------------------------------------------------

def all_paths(obj, prefix=()):
    out = []
    if isinstance(obj, dict):
        for k, v in obj.items():
            out.append(list(prefix) + [k])
            out += all_paths(v, prefix + (k,))
    elif isinstance(obj, list):
        for i, v in enumerate(obj):
            out.append(list(prefix) + [i])
            out += all_paths(v, prefix + (i,))
    return out


def int_paths(obj, prefix=()):
    out = []
    if isinstance(obj, dict):
        items = obj.items()
    elif isinstance(obj, list):
        items = enumerate(obj)
    else:
        return out
    for k, v in items:
        if isinstance(v, bool):
            continue
        if isinstance(v, int):
            out.append((list(prefix) + [k], v))
        else:
            out += int_paths(v, prefix + (k,))
    return out


def path_value(obj, path):
    for k in path:
        obj = obj[k]
    return obj


def enumerate_single_faults(answer_obj, text, cfg):
    """The complete single-fault space for one valid answer."""
    faults = []
    raw = json.dumps(answer_obj, ensure_ascii=cfg.get('ensure_ascii', False)
                     ).encode('utf-8')
    for n in range(len(raw)):
        faults.append({'kind': 'truncate', 'at': n})
    paths = all_paths(answer_obj)
    for p in paths:
        faults.append({'kind': 'delete_field', 'path': p})
    for p in paths:
        for v in RETYPE_VALUES:
            faults.append({'kind': 'retype_field', 'path': p, 'value': v})
    n = len(text)
    for p, v in int_paths(answer_obj):
        huge = 2 ** 31
        for nv in sorted({v - 1, v + 1, v * 2, n - 1, n, n + 1, n + 2, n + 3,
                          n + 7, 2 * n, -n, huge, -huge, 10 ** 30, -10 ** 30,
                          2 ** 63, n - v, n - v + 1, n - v + 2}):
            if nv != v:
                faults.append({'kind': 'retype_field', 'path': p, 'value': nv,
                               'perturb': True})
    for g in GARBAGE:
        faults.append({'kind': 'garbage', 'hex': g.hex()})
    # link addresses that URL parsers reject or treat specially
    for p in paths:
        if len(p) >= 3 and p[-1] == 'value' and p[-3] == 'urls':
            for u in HOSTILE_URLS:
                faults.append({'kind': 'retype_field', 'path': p, 'value': u})
    # unpaired surrogates spelt with upper-case hex digits (two faults at
    # once: the retyping and the spelling of the escapes)
    for p in paths:
        if isinstance(path_value(answer_obj, p), str):
            faults.append([{'kind': 'retype_field', 'path': p,
                            'value': 'cut \ud83d'},
                           {'kind': 'upper_escapes'}])
    return faults, len(raw)


def with_fault(base, k, fault, idx):
    plan = copy.deepcopy(base)
    plan.pop('_want_subs', None)
    plan['peer'].setdefault('faults', {})[str(k)] = fault
    plan['_index'] = idx
    return plan


def with_ranges(base, k, ranges, idx):
    plan = copy.deepcopy(base)
    plan.pop('_want_subs', None)
    plan['peer'].setdefault('per_call', {})[str(k)] = {'set_ranges': ranges}
    plan['_index'] = idx
    return plan


def gen_base(rng, mode, short=False, ml=None):
    if short:
        base = shellscen.gen_shell_base(rng, mode=mode, ml=False, nfiles=1,
                                        max_frags=3)
    else:
        base = shellscen.gen_shell_base(rng, mode=mode, ml=ml,
                                        nfiles=rng.choice([1, 1, 2]),
                                        max_frags=10, max_targets=3)
    base['peer']['dup'] = []
    base['transport'] = 'run'
    # options that make the report writers read further fields of a match, or
    # merge matches of the shell's own checks with the proofreader's
    i = base['argv'].index('--output')
    extra = []
    if rng.random() < (0.6 if mode == 'html' else 0.3):
        extra.append('--link')
    if rng.random() < 0.15:
        extra += ['--single-letters', 'a|z.\\,B.|']
    if rng.random() < 0.15:
        extra += ['--equation-punctuation', rng.choice(['displayed', 'all'])]
    base['argv'][i:i] = extra
    return base


def to_transport(base, transport):
    """Variant of a base scenario over another transport (well-framed HTTP
    body) or another proofreader (TextGears answer shape)."""
    b = copy.deepcopy(base)
    b['transport'] = transport
    i = b['argv'].index('--output')
    if transport == 'my':
        b['argv'][i:i] = ['--server', 'my']
        b['peer']['http'] = {'initially_up': True}
    elif transport == 'textgears':
        b['argv'][i:i] = ['--textgears', 'KEY']
    return b


def to_server(base):
    """The same documents sent as requests to `--as-server`."""
    b = copy.deepcopy(base)
    b['mode'] = 'server'
    i = b['argv'].index('--output')
    argv = b['argv'][:i] + [a for a in b['argv'][i + 2:] if a not in b['names']]
    b['argv'] = ['--as-server', '8082'] + argv
    b['requests'] = [{'client': k, 'fields': [['language', b['lang']]],
                      'doc': b['files'][n], 'text_pos': 1}
                     for k, n in enumerate(b['names'])]
    b['names'] = []
    return b


FIXED_TEX = 'Größe \\textbf{qbaz qdéz} übrig.\n\\footnote{Fuß qfiz.}\n'


def fixed_bases():
    """One fixed ASCII / non-ASCII pair per mode so that single-field coverage
    of the quick tier never depends on luck."""
    out = []
    for mode in shellscen.MODES:
        for ea in (False, True):
            out.append({'kind': 'shell', 'mode': mode, 'ml': False,
                        'lang': 'de-DE', 'names': ['fix.tex'],
                        'argv': ['--lt-command', 'simlt', '--language', 'de-DE']
                        + ([] if ea else ['--link'])     # urls are read (html)
                        + ['--output', mode, 'fix.tex'],
                        'files': {'fix.tex': {'text': FIXED_TEX}},
                        'peer': {'targets': ['qdéz', 'qfiz'], 'dup': [],
                                 'nonascii': True, 'ensure_ascii': ea,
                                 'subid': True, 'urls': True}})
    return out


def selftest_plans(seed, n):
    """A seeded sample of fault plans (for the determinism self-test)."""
    bases = fixed_bases()[:3:2]
    for b in range(2):
        bases.append(gen_base(core.run_rng(seed, PID, 'base', b),
                              shellscen.MODES[b % 5], ml=(b == 0)))
    plans = []
    for bi, b in enumerate(bases):
        b['_want_subs'] = True
        r = evaluate(b)
        subs = r.get('subs') or []
        if r['verdict'] != 'ok' or not subs:
            continue
        rng = core.run_rng(seed, PID, 'selftest', bi)
        k = rng.randrange(len(subs))
        text, lang, tag = subs[k]
        obj = answer_obj(b, text, lang, tag)
        faults, _ = enumerate_single_faults(obj, text, b['peer'])
        for f in rng.sample(faults, min(len(faults), max(1, n // len(bases)))):
            plans.append(with_fault(b, k, f, len(plans)))
    return plans[:n]


def run(seed, tier, budget_s):
    batch = core.Batch(PID, seed, tier, LEVEL)
    quick = tier == 'quick'
    n_bases = 2 if quick else 10
    idx = [0]

    def nxt():
        idx[0] += 1
        return idx[0]

    # ---- stage 1: base scenarios, fault free
    bases = []
    rng = core.run_rng(seed, PID, 'bases')
    modes = list(shellscen.MODES)
    if quick:
        for b in range(n_bases):
            brng = core.run_rng(seed, PID, 'base', b)
            bases.append(gen_base(brng, modes[(b + rng.randrange(5)) % 5],
                                  ml=(True if b == 0 else None)))
        fb = fixed_bases()
        bases += [fb[i] for i in range(0, len(fb), 2)]     # raw UTF-8 variants
        bases += [fb[1], fb[5]]                            # two \uXXXX variants
    else:
        for b in range(n_bases):
            brng = core.run_rng(seed, PID, 'base', b)
            proto = gen_base(brng, 'plain')
            for mode in modes:
                p = copy.deepcopy(proto)
                p['mode'] = mode
                p['argv'][p['argv'].index('--output') + 1] = mode
                bases.append(p)
        bases += fixed_bases()
    # other transports / proofreader / the server emulation, derived from the
    # seeded bases so that they share documents with the subprocess variants
    extra = []
    trng = core.run_rng(seed, PID, 'transports')
    src = [b for b in bases if 'files' in b and b['mode'] != 'server']
    if quick:
        pick = trng.sample(src, min(len(src), 2))
        extra.append(to_transport(pick[0], 'my'))
        extra.append(to_transport(pick[-1], 'textgears'))
        extra.append(to_server(src[0]))
        extra.append(to_server(to_transport(src[-1], 'textgears')))
    else:
        for b in src[::2]:
            extra.append(to_transport(b, trng.choice(['my', 'textgears'])))
        for b in src[::5]:
            extra.append(to_server(b))
            extra.append(to_server(to_transport(b, 'textgears')))
    for b in extra:
        b['_derived'] = True
    bases += extra
    for b in bases:
        b.setdefault('transport', 'run')
        b['_want_subs'] = True
        b['_index'] = nxt()
    base_res = core.map_plans(MOD, bases)
    usable = []
    for b, r in zip(bases, base_res):
        batch.add(b, r)
        if r['verdict'] == 'ok' and r.get('subs'):
            usable.append((b, r['subs']))
    batch.probes['bases_usable'] = len(usable)

    # ---- stage 2: single faults on the k-th invocation
    complete_sweeps = 0
    http_fault_cases = 0
    sweep_sizes = []
    plans = []
    for bi, (b, subs) in enumerate(usable):
        frng = core.run_rng(seed, PID, 'faults', bi)
        # the fault lands on an invocation that has matches if possible
        cand = []
        for k, (text, lang, tag) in enumerate(subs):
            obj = answer_obj(b, text, lang, tag)
            cand.append((k, obj, text))
        with_m = [c for c in cand if c[1].get('matches') or c[1].get('errors')] or cand
        # the main sweep lands on the LAST invocation with matches (all earlier
        # parts have accumulated), a second, smaller one on another invocation
        k, obj, text = with_m[-1]
        faults, nbytes = enumerate_single_faults(obj, text, b['peer'])
        sweep_sizes.append(len(faults))
        if quick:
            # every deletion, retyping, perturbation and garbage output; a
            # seeded share of the byte truncations
            trunc = [f for f in faults if isinstance(f, dict)
                     and f['kind'] == 'truncate']
            chosen = [f for f in faults if not (isinstance(f, dict)
                                                and f['kind'] == 'truncate')]
            if b['peer'].get('ensure_ascii') and b['names'] == ['fix.tex']:
                # the \uXXXX twins of the fixed bases exist for the byte
                # truncations; field faults are covered by their raw twins
                chosen = [f for f in chosen if isinstance(f, dict)
                          and f['kind'] in ('garbage', 'delete_field')]
            if b.get('_derived'):
                # other transport / server variants of a base: a seeded third
                # of the plain retypings, everything else in full
                chosen = [f for f in chosen if isinstance(f, list)
                          or f['kind'] != 'retype_field'
                          or f.get('perturb') or frng.random() < 0.34]
            chosen += frng.sample(trunc, min(len(trunc),
                                             60 if b.get('_derived') else 160))
        else:
            chosen = faults
            complete_sweeps += 1
        for f in chosen:
            plans.append(with_fault(b, k, f, nxt()))
        others = [c for c in cand if c[0] != k]
        if others:
            k2, obj2, text2 = frng.choice(others)
            f2, _ = enumerate_single_faults(obj2, text2, b['peer'])
            f2 = [f for f in f2 if isinstance(f, dict) and (
                f.get('perturb') or f['kind'] == 'garbage'
                or (f['kind'] == 'delete_field' and len(f['path']) <= 3))]
            for f in f2:
                plans.append(with_fault(b, k2, f, nxt()))
        if b.get('transport') == 'my' and b['mode'] != 'server':
            # the local LT server answers the availability probe, but the
            # request itself is answered badly at the HTTP level (every time
            # it is tried): at each invocation of the run
            for (kk, _o, tt) in cand:
                for f in HTTP_FAULTS:
                    plans.append(with_fault(b, kk, f, nxt()))
                    http_fault_cases += 1
        if len(batch.samples) < 3:
            batch.samples.append({
                'base_argv': b['argv'], 'invocation_k': k,
                'submitted_text': text[:200],
                'example_faults': chosen[:3]})

    # ---- stage 3: all in-range (offset, length) pairs of a short text
    sweep_ranges = 0
    for si in range(1 if quick else 4):
        srng = core.run_rng(seed, PID, 'short', si)
        for mode in (modes if not quick else [modes[si % 5], 'html']):
            b = gen_base(srng, mode, short=True)
            b['_want_subs'] = True
            r = evaluate(b)
            if r['verdict'] != 'ok' or not r.get('subs'):
                continue
            text = r['subs'][0][0]
            n = min(len(text), 40 if quick else 90)
            pairs = [[o, l] for o in range(len(text) - n, len(text))
                     for l in range(0, len(text) - o + 1)]
            pairs += [[0, 0], [0, 1], [0, len(text)]]
            if quick:
                pairs = srng.sample(pairs, min(len(pairs), 150))
            for pr in pairs:
                plans.append(with_ranges(b, 0, [pr], nxt()))
                sweep_ranges += 1

    # ---- stage 3d: one- and two-character matches at EVERY offset of a text
    #      made of control symbols, accent macros and other constructs whose
    #      plain character stands for several LaTeX characters (the mapping
    #      of a match onto such a character has code paths of its own)
    symbol_cases = 0
    for si, mode in enumerate(modes if not quick
                              else [modes[seed % 5], modes[(seed + 2) % 5]]):
        srng = core.run_rng(seed, PID, 'symbols', si)
        b = gen_base(srng, mode, short=True)
        b['files'][b['names'][0]] = {'text': SYMBOL_ZOO}
        b['peer']['targets'] = []
        b['_want_subs'] = True
        r = evaluate(b)
        if r['verdict'] != 'ok' or not r.get('subs'):
            continue
        text = r['subs'][0][0]
        pairs = [[o, l] for o in range(len(text)) for l in (1, 2)
                 if o + l <= len(text)]
        if quick:
            pairs = srng.sample(pairs, min(len(pairs), 260))
        for pr in pairs:
            plans.append(with_ranges(b, 0, [pr], nxt()))
            symbol_cases += 1

    # ---- stage 3a: in-range matches that cross a flow boundary (start in the
    #      main text, end in footnote/caption text that was moved to the end:
    #      the end then maps to an EARLIER LaTeX position than the start)
    cross_flow = 0
    for si in range(1 if quick else 4):
        srng = core.run_rng(seed, PID, 'crossflow', si)
        for mode in (['html', modes[si % 5]] if quick else modes):
            W = docgen.Words(srng)
            frags = [docgen.f_plain(srng, W, {}), docgen.f_footnote(srng, W, {}),
                     docgen.f_plain(srng, W, {}), docgen.f_caption(srng, W, {}),
                     docgen.f_plain(srng, W, {})]
            srng.shuffle(frags)
            b = {'kind': 'shell', 'mode': mode, 'ml': False, 'lang': 'en-GB',
                 'names': ['flow.tex'], 'transport': 'run',
                 'argv': ['--lt-command', 'simlt', '--language', 'en-GB',
                          '--output', mode, 'flow.tex'],
                 'files': {'flow.tex': {'frags': frags}},
                 'peer': {'targets': [], 'dup': [], 'nonascii': True},
                 '_want_subs': True}
            r = evaluate(b)
            if r['verdict'] != 'ok' or not r.get('subs'):
                continue
            text = r['subs'][0][0]
            pairs = []
            for fr in frags:
                for w in fr.get('flow_words', [])[:1]:
                    bnd = text.find(w)
                    if bnd < 0:
                        continue
                    for o in range(max(0, bnd - 24), bnd, 2):
                        for e in range(bnd, min(len(text), bnd + 12), 2):
                            pairs.append([o, e - o + 1])
            if quick:
                pairs = srng.sample(pairs, min(len(pairs), 120))
            for pr in pairs:
                plans.append(with_ranges(b, 0, [pr], nxt()))
                cross_flow += 1

    # ---- stage 3c: two in-range matches, a long one over several lines and a
    #      shorter one that starts inside it (or at the same place)
    nested_pairs = 0
    for si in range(1 if quick else 3):
        srng = core.run_rng(seed, PID, 'nested', si)
        for mode in (['html', modes[(si + 2) % 5]] if quick else modes):
            W = docgen.Words(srng)
            frags = [docgen.f_plain(srng, W, {}) for _ in range(7)]
            for fr in frags:
                if not fr['s'].endswith('\n'):
                    fr['s'] = fr['s'].rstrip(' ') + '\n'
            for ctxv in (['0'] if quick else ['0', '2']):
                b = {'kind': 'shell', 'mode': mode, 'ml': False, 'lang': 'en-GB',
                     'names': ['nest.tex'], 'transport': 'run',
                     'argv': ['--lt-command', 'simlt', '--language', 'en-GB',
                              '--context', ctxv, '--output', mode, 'nest.tex'],
                     'files': {'nest.tex': {'frags': frags}},
                     'peer': {'targets': [], 'dup': [], 'nonascii': True},
                     '_want_subs': True}
                r = evaluate(b)
                if r['verdict'] != 'ok' or not r.get('subs'):
                    continue
                text = r['subs'][0][0]
                nl = [i for i, ch in enumerate(text) if ch == '\n']
                pairs = []
                for o1 in (0, nl[0] + 1 if nl else 0, 3):
                    for k in range(1, len(nl)):
                        l1 = nl[k] - o1 + srng.randrange(0, 3)
                        for o2 in (o1, o1 + 2, nl[0] + 2 if nl else o1):
                            if o1 <= o2 < o1 + l1:
                                for l2 in (1, 4, 0):
                                    pairs.append([[o1, l1], [o2, l2]])
                                    pairs.append([[o2, l2], [o1, l1]])
                if quick:
                    pairs = srng.sample(pairs, min(len(pairs), 90))
                for pr in pairs:
                    plans.append(with_ranges(b, 0, pr, nxt()))
                    nested_pairs += 1

    # ---- stage 3b: offsets around the end of each part, at every invocation
    #      of the multi-part bases (in range of the accumulated text, out of
    #      range of the part, and just beyond everything)
    boundary_cases = 0
    for bi, (b, subs) in enumerate(usable):
        if len(subs) < 2:
            continue
        lens = [len(t) for (t, _, _) in subs]
        total = sum(lens) + 2 * len(lens)
        for k, n in enumerate(lens):
            before = sum(lens[:k]) + 2 * k
            offs = {n - 2, n - 1, n, n + 1, n + 2, n + 3, n + 4,
                    total - before - 2, total - before - 1, total - before,
                    total - before + 1, before, before + n, total - 1, total,
                    total + 1}
            for o in sorted(x for x in offs if x >= 0):
                for l in (0, 1, 4, 9):
                    plans.append(with_ranges(b, k, [[o, l]], nxt()))
                    boundary_cases += 1

    # ---- stage 4: seeded multi-fault combinations
    n_multi = 300 if quick else 6000
    mrng = core.run_rng(seed, PID, 'multi')
    if usable:
        for _ in range(n_multi):
            b, subs = mrng.choice(usable)
            k = mrng.randrange(len(subs))
            text, lang, tag = subs[k]
            obj = answer_obj(b, text, lang, tag)
            faults, _ = enumerate_single_faults(obj, text, b['peer'])
            fs = [mrng.choice(faults) for _ in range(mrng.randrange(2, 4))]
            # truncation, if any, goes last (it acts on the bytes)
            fs.sort(key=lambda f: isinstance(f, dict) and f['kind'] == 'truncate')
            plans.append(with_fault(b, k, fs, nxt()))

    for i in range(0, len(plans), 2000):
        chunk = plans[i:i + 2000]
        _res = core.map_plans(MOD, chunk, chunk=8)
        for p, r in zip(chunk, _res):
            batch.add(p, r)
        if i == 0:
            step_ = max(1, len(chunk) // 12)
            core.cross_validate(MOD, batch, list(zip(chunk, _res))[::step_],
                                12 if quick else 60)
        if batch.elapsed() > budget_s:
            batch.probes['budget_cut_after_plans'] = i + len(chunk)
            complete_sweeps = 0 if i + len(chunk) < len(plans) else complete_sweeps
            break

    rule = ('Cases = (base scenario, output mode, invocation k, answer fault). '
            'Base scenarios are seeded documents (1-2 files, single- or '
            'multi-language so that 1-6 invocations accumulate state); faults '
            'are enumerated from the valid answer the simulated proofreader '
            'gives for the text it actually received: every byte truncation, '
            'every JSON-path deletion, every JSON-path retyping over 13 '
            'values, integer perturbations, garbage outputs, in-range '
            '(offset,length) pairs, plus seeded 2-3-fault combinations. A '
            'case is non-trivial iff the fault was consumed at the seam '
            '(counted when the faulty answer is emitted); distinct = distinct '
            'event-log digests among those runs.')
    assumptions = [
        'answer faults are delivered through a well-framed transport (subprocess stdout, or an HTTP body whose framing matches its length for --server my / --textgears)',
        'the fake proofreader answers as LanguageTool 4.7 would in shape (fields, types), with non-ASCII content',
        'quick tier samples each per-base fault space; thorough tier sweeps it completely (coverage.exhaustive refers to the per-base single-fault sweep only)',
    ]
    components = {
        'real': ['yalafi.shell.shell (module body, argparse)', 'yalafi.shell.proofreader',
                 'yalafi.shell.utils', 'yalafi.shell.gentext/genjson/genxml/genhtml',
                 'yalafi filter (tex2txt, parser, scanner, ...)', 'json, xml.etree'],
        'stubbed': ['subprocess.run (LanguageTool process)', 'urllib.request.urlopen (local LT server, TextGears)',
                    'socket/serve_forever (clients of --as-server)', 'builtins.open for relative paths (in-memory files)',
                    'time.sleep/time.time'],
    }
    extra = {'per_base_single_fault_space_sizes': sweep_sizes[:12],
             'complete_single_fault_sweeps': complete_sweeps,
             'range_sweep_cases': sweep_ranges,
             'symbol_offset_cases': symbol_cases,
             'http_level_fault_cases': http_fault_cases,
             'part_boundary_offset_cases': boundary_cases,
             'cross_flow_range_cases': cross_flow,
             'nested_multi_line_pairs': nested_pairs,
             'multi_fault_cases': n_multi if usable else 0}
    return core.finish(__import__('sim.scen_c15', fromlist=['x']), batch, rule,
                       assumptions, components, extra,
                       exhaustive=(not quick and complete_sweeps > 0))


# ---------------------------------------------------------------------
#   shrinking
# ---------------------------------------------------------------------

def shrink(plan):
    # fewer faults in a multi set
    faults = plan['peer'].get('faults', {})
    for k, f in faults.items():
        if isinstance(f, list) and len(f) > 1:
            for i in range(len(f)):
                c = copy.deepcopy(plan)
                c['peer']['faults'][k] = f[:i] + f[i + 1:]
                yield c
    # fewer files
    names = plan['names']
    if len(names) > 1:
        for n in names:
            c = copy.deepcopy(plan)
            c['names'] = [x for x in names if x != n]
            c['argv'] = [a for a in c['argv'] if a != n]
            del c['files'][n]
            yield c
    # fewer fragments
    for n in names:
        frs = plan['files'][n].get('frags')
        if not frs or len(frs) <= 1:
            continue
        half = len(frs) // 2
        for lo, hi in ((0, half), (half, len(frs))):
            c = copy.deepcopy(plan)
            c['files'][n]['frags'] = frs[lo:hi]
            yield c
        if len(frs) <= 8:
            for i in range(len(frs)):
                c = copy.deepcopy(plan)
                c['files'][n]['frags'] = frs[:i] + frs[i + 1:]
                yield c
    # fewer targets
    t = plan['peer'].get('targets', [])
    if len(t) > 1:
        for i in range(len(t)):
            c = copy.deepcopy(plan)
            c['peer']['targets'] = t[:i] + t[i + 1:]
            yield c
    # drop options
    for opt in ('--multi-language',):
        if opt in plan['argv']:
            c = copy.deepcopy(plan)
            c['argv'].remove(opt)
            yield c
