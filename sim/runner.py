"""Fork-per-run executor: one simulated run = one OS process running the real
YaLafi code (imported from $VERIF_REPO) against sim.world.World.

execute(plan) is a pure function of (plan, code); it draws no random numbers
and reads no real clock (the only wall-clock use is the watchdog alarm, whose
firing is classified as a harness error, never as a verdict).
"""

import hashlib
import importlib
import io
import json
import os
import pkgutil
import signal
import sys
import traceback

REPO = os.environ.get('VERIF_REPO', '/repo')
RUN_TIMEOUT_S = int(os.environ.get('VERIF_RUN_TIMEOUT', '20'))

_preloaded = False


class HarnessError(Exception):
    pass


LEAN = False     # C17: do not pre-import lazily loaded package modules


def preload():
    """Zygote: import (never call) the YaLafi modules from the working tree.
    With LEAN set, only what `import yalafi.tex2txt` and the shell's
    unconditional imports pull in: extension modules for packages and document
    classes are then imported by each child on demand, exactly as in a fresh
    interpreter (their import-time effects are part of what C17 observes)."""
    global _preloaded
    if _preloaded:
        return
    if sys.path[0] != REPO:
        sys.path.insert(0, REPO)
    import yalafi
    here = os.path.realpath(os.path.dirname(yalafi.__file__))
    if here != os.path.realpath(os.path.join(REPO, 'yalafi')):
        raise HarnessError('yalafi imported from %s, expected %s/yalafi'
                           % (here, REPO))
    skip = {'yalafi.__main__', 'yalafi.shell.__main__', 'yalafi.shell.shell'}
    for m in pkgutil.walk_packages(yalafi.__path__, 'yalafi.'):
        if m.name in skip:
            continue
        if LEAN and (m.name.startswith('yalafi.packages')
                     or m.name.startswith('yalafi.documentclasses')
                     or m.name == 'yalafi.shell.addpacks'):
            continue
        try:
            importlib.import_module(m.name)
        except BaseException:
            pass        # a fresh process would fail the same way, later
    # modules the shell pulls in lazily; importing them early only saves time
    import argparse, http.server, socketserver, subprocess, urllib.request  # noqa
    import xml.etree.ElementTree, unicodedata, email.utils  # noqa
    _preloaded = True


# ---------------------------------------------------------------------
#   child side
# ---------------------------------------------------------------------

def _jsonable_result(ret):
    if isinstance(ret, dict):
        return {'ml': [[lang, [[p[0], list(p[1])] for p in parts]]
                       for lang, parts in ret.items()]}
    if isinstance(ret, tuple) and len(ret) == 2:
        return {'txt': ret[0], 'pos': list(ret[1])}
    return {'repr': repr(ret)}


def _run_lib(plan, world, extra):
    from yalafi import tex2txt
    results = extra['lib'] = []
    shared = {}
    for op in plan['ops']:
        if op.get('files'):
            # the files an operation finds (rewritten between two calls)
            world.fs.update(op['files'])
        sys.stderr.flush()
        e0 = os.lseek(2, 0, os.SEEK_CUR)
        o = op.get('opts', {})
        rec = {}
        try:
            # directives (keys with '_'): '_repl_file' / '_defs_file' = the
            # option value is obtained with the library's own reader;
            # '_share' = a caller that builds its Options object once and
            # passes it to every call with these very options
            key = json.dumps(o, sort_keys=True)
            if o.get('_share') and key in shared:
                opts = shared[key]
                world.fire('options_object_reused')
            else:
                kwargs = {k: v for k, v in o.items() if not k.startswith('_')}
                enc = kwargs.get('ienc', 'utf-8')
                if o.get('_repl_file'):
                    kwargs['repl'] = tex2txt.read_replacements(o['_repl_file'], enc)
                if o.get('_defs_file'):
                    kwargs['defs'] = tex2txt.read_definitions(o['_defs_file'], enc)
                opts = tex2txt.Options(**kwargs)
                if o.get('_share'):
                    shared[key] = opts
            mod = None
            if op.get('mod'):
                def mod(parms, _m=op['mod']):
                    for k, v in _m.items():
                        setattr(parms, k, v)
            kw = {}
            if op.get('ml'):
                kw['multi_language'] = True
            if mod:
                kw['modify_parms'] = mod
            rec['ret'] = _jsonable_result(tex2txt.tex2txt(op['latex'], opts,
                                                          **kw))
            rec['status'] = 'ok'
        except SystemExit as e:
            rec['status'] = 'exit:' + str(0 if e.code is None else e.code)
        except BaseException as e:
            rec['status'] = 'exc:' + type(e).__name__
            world.ev('lib_exception', typ=type(e).__name__)
        sys.stderr.flush()
        rec['err'] = [e0, os.lseek(2, 0, os.SEEK_CUR)]
        results.append(rec)
        if rec['status'].startswith('exit:'):
            break
    return 'ok'


def _run_entry(plan, world, extra):
    kind = plan['kind']
    if kind == 'shell':
        sys.argv = ['yalafi.shell'] + list(plan['argv'])
        importlib.import_module('yalafi.shell.shell')
        return 'ok'
    if kind == 'filter_cli':
        sys.argv = ['yalafi'] + list(plan['argv'])
        from yalafi import tex2txt
        tex2txt.main()
        return 'ok'
    if kind == 'lib':
        # diagnostics of the filter quote sys.argv[0]: the same in every host
        sys.argv = ['yalafi-lib']
        return _run_lib(plan, world, extra)
    raise HarnessError('unknown plan kind ' + repr(kind))


def _child(plan, fd_in, fd_out, fd_err, fd_res):
    status = 'harness:child'
    world = None
    extra = {}
    done = [False]

    def finish(status):
        if done[0]:
            os._exit(0)
        done[0] = True
        try:
            try:
                sys.stdout.flush()
            except BaseException as e:
                # interpreter shutdown: a failing final flush of sys.stdout is
                # reported on stderr and turns the exit status into 120
                try:
                    os.write(2, ("Exception ignored in: <_io.TextIOWrapper "
                                 "name='<stdout>' mode='w' encoding='utf-8'>\n"
                                 "%s: %s\n" % (type(e).__name__, e)).encode())
                except BaseException:
                    pass
                if status in ('ok',) or status.startswith('exit:'):
                    status = 'exit:120'
            try:
                sys.stderr.flush()
            except BaseException:
                pass
            # emulate interpreter exit: flush files yalafi opened on fd 1
            sh = sys.modules.get('yalafi.shell.shell')
            f = getattr(sh, 'out_utf8', None) if sh else None
            if f is not None:
                try:
                    f.flush()
                except BaseException:
                    pass
            res = {'status': status, 'extra': extra}
            if world is not None:
                res['events'] = world.events
                res['fired'] = world.fired
                res['written'] = world.fs.written
                res['slept'] = world.clock.slept
                res['now'] = world.clock.now
                res['opens'] = world.fs.opens
                res['peer'] = {'invocations': world.peer.invocations,
                               'popen': world.peer.popen_calls,
                               'urlopen': world.peer.urlopen_calls}
                if world.net is not None:
                    res['responses'] = [r.decode('latin-1')
                                        for r in world.net.responses()]
            data = json.dumps(res).encode('utf-8')
            os.write(fd_res, data)
        except BaseException:
            try:
                os.write(fd_res, json.dumps(
                    {'status': 'harness:finish:' + traceback.format_exc()}
                ).encode())
            except BaseException:
                pass
        os._exit(0)

    try:
        signal.alarm(RUN_TIMEOUT_S)
        os.dup2(fd_in, 0)
        os.dup2(fd_out, 1)
        os.dup2(fd_err, 2)
        sys.stdin = io.TextIOWrapper(io.FileIO(0, 'r', closefd=False),
                                     encoding='utf-8')
        sys.stdout = io.TextIOWrapper(io.FileIO(1, 'w', closefd=False),
                                      encoding='utf-8')
        sys.stderr = io.TextIOWrapper(io.FileIO(2, 'w', closefd=False),
                                      encoding='utf-8',
                                      errors='backslashreplace',
                                      line_buffering=True)
        from sim import world as world_mod
        world = world_mod.World(plan, finish)
        if plan.get('trace_stderr'):
            # progress lines of the shell ('=== ...') become history events
            class _Traced(io.TextIOWrapper):
                def write(self, s, _w=world):
                    _w.ev('stderr', text=s[:400])
                    return super().write(s)
            sys.stderr = _Traced(io.FileIO(2, 'w', closefd=False),
                                 encoding='utf-8', errors='backslashreplace',
                                 line_buffering=True)
        world.install()
    except BaseException:
        status = 'harness:setup:' + traceback.format_exc()
        finish(status)
    try:
        status = _run_entry(plan, world, extra)
    except SystemExit as e:
        code = e.code
        if code is None:
            code = 0
        elif not isinstance(code, int):
            # sys.exit("text") prints the text and exits with 1
            try:
                sys.stderr.write(str(code) + '\n')
            except BaseException:
                pass
            code = 1
        status = 'exit:' + str(code)
    except HarnessError:
        status = 'harness:entry:' + traceback.format_exc()
    except BaseException as e:
        tb = traceback.extract_tb(e.__traceback__)
        simdir = os.path.dirname(os.path.abspath(__file__))
        if (tb and os.path.abspath(tb[-1].filename).startswith(simdir)
                and not isinstance(e, OSError)
                and not getattr(e, 'sim_injected', False)):
            # a bug of the simulator itself, not behaviour of YaLafi
            # (simulated faults are OSError / URLError or carry the attribute
            # sim_injected, and are raised on purpose)
            status = 'harness:sim-exception:' + traceback.format_exc()
        else:
            # what the interpreter would do with an unhandled exception
            try:
                traceback.print_exc()
            except BaseException:
                pass
            status = 'exc:' + type(e).__name__
    finish(status)


# ---------------------------------------------------------------------
#   parent side
# ---------------------------------------------------------------------

def _read_all(fd):
    os.lseek(fd, 0, os.SEEK_SET)
    chunks = []
    while True:
        b = os.read(fd, 1 << 20)
        if not b:
            break
        chunks.append(b)
    return b''.join(chunks)


def execute(plan):
    """Runs one plan in a forked child. Returns the observation dict:
    status, stdout, stderr, events, fired, digest, ..."""
    preload()
    fds = [os.memfd_create('sim-' + n) for n in ('in', 'out', 'err', 'res')]
    try:
        stdin = plan.get('stdin')
        if stdin is not None:
            os.write(fds[0], stdin.encode(plan.get('stdin_enc', 'utf-8')))
            os.lseek(fds[0], 0, os.SEEK_SET)
        sys.stdout.flush()
        sys.stderr.flush()
        pid = os.fork()
        if pid == 0:
            try:
                _child(plan, *fds)
            finally:
                os._exit(97)
        _, st = os.waitpid(pid, 0)
        out = _read_all(fds[1])
        err = _read_all(fds[2])
        res = _read_all(fds[3])
    finally:
        for fd in fds:
            os.close(fd)
    obs = None
    if res:
        try:
            obs = json.loads(res.decode('utf-8'))
        except ValueError:
            obs = None
    if obs is None:
        if os.WIFSIGNALED(st):
            sig = os.WTERMSIG(st)
            obs = {'status': ('harness:timeout' if sig == signal.SIGALRM
                              else 'harness:signal:%d' % sig)}
        else:
            obs = {'status': 'harness:noresult:%d' % os.WEXITSTATUS(st)}
    obs.setdefault('events', [])
    obs.setdefault('fired', {})
    obs.setdefault('extra', {})
    obs['stdout_bytes'] = out
    obs['stderr_bytes'] = err
    obs['stdout'] = out.decode('utf-8', errors='surrogateescape')
    obs['stderr'] = err.decode('utf-8', errors='surrogateescape')
    h = hashlib.sha256()
    h.update(json.dumps([obs['status'], obs['events'], obs.get('responses'),
                         obs['extra'], obs.get('written')],
                        sort_keys=True).encode('utf-8'))
    h.update(out)
    h.update(b'\0')
    h.update(err)
    obs['digest'] = h.hexdigest()
    return obs


def is_harness_error(obs):
    return obs['status'].startswith('harness:')


def lib_stderr(obs, rec):
    a, b = rec['err']
    return obs['stderr_bytes'][a:b].decode('utf-8', errors='replace')
