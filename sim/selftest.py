"""Self-tests of the machinery (not registered checks):

  ./check selftest determinism [--n N] [pids...]
  ./check selftest sensitivity [mutant-name-prefix ...]
  ./check selftest regressions
  ./check selftest seeded            (runs the checks against /verif/seeded/*)
  ./check selftest benign            (property-preserving changes: no alarm allowed)

determinism: N plans per property are generated and evaluated (a) in the
worker pool, (b) again in the pool in reversed order (other worker
assignment), (c) sequentially in a FRESH interpreter under another
PYTHONHASHSEED, regenerated there from the seed; plan hashes, verdicts and
event-log digests must agree.
"""

import glob
import hashlib
import importlib
import json
import os
import shutil
import subprocess
import sys
import tempfile

from sim import core

PIDS = ['C08', 'C14', 'C15', 'C17', 'C18']
MODS = {'C08': 'sim.scen_c08', 'C14': 'sim.scen_c14', 'C15': 'sim.scen_c15',
        'C17': 'sim.scen_c17', 'C18': 'sim.scen_c18'}


def plans_for(pid, seed, n):
    mod = importlib.import_module(MODS[pid])
    if hasattr(mod, 'selftest_plans'):
        return mod.selftest_plans(seed, n)
    if pid == 'C18':
        return [mod.gen_plan(core.run_rng(seed, pid, j), j, j % 10 == 9)
                for j in range(n)]
    return [mod.gen_plan(core.run_rng(seed, pid, j), j) for j in range(n)]


def plan_hash(p):
    return hashlib.sha256(json.dumps(p, sort_keys=True).encode()).hexdigest()[:16]


def digests(pid, seed, n, reverse=False):
    plans = plans_for(pid, seed, n)
    order = list(range(len(plans)))
    if reverse:
        order.reverse()
    res = core.map_plans(MODS[pid], [plans[i] for i in order], chunk=1)
    out = [None] * len(plans)
    for i, r in zip(order, res):
        out[i] = [plan_hash(plans[i]), r['verdict'], r.get('vclass', ''),
                  r['digest']]
    return out


def cmd_digests(args):
    pid, seed, n = args[0], int(args[1]), int(args[2])
    from sim import runner
    importlib.import_module(MODS[pid])
    runner.preload()
    print('DIGESTS ' + json.dumps(digests(pid, seed, n)))
    return 0


def cmd_determinism(args):
    n = 200
    pids = []
    i = 0
    while i < len(args):
        if args[i] == '--n':
            n = int(args[i + 1])
            i += 2
        else:
            pids.append(args[i])
            i += 1
    pids = pids or PIDS
    bad = 0
    for pid in pids:
        # one interpreter per property: C17 needs the lean zygote
        env = dict(os.environ)
        env['PYTHONPATH'] = core.VERIF
        env['PYTHONDONTWRITEBYTECODE'] = '1'
        runs = {}
        for label, hs, jobs, rev in (('pool-16', '0', None, False),
                                     ('pool-16-reversed', '0', None, True),
                                     ('pool-3', '0', '3', False),
                                     ('fresh-sequential-hashseed-4242', '4242', '1', False)):
            e = dict(env)
            e['PYTHONHASHSEED'] = hs
            if jobs:
                e['VERIF_JOBS'] = jobs
            code = ('import sys, json; sys.path.insert(0, %r); '
                    'from sim import selftest, core, runner; import importlib; '
                    'importlib.import_module(selftest.MODS[%r]); runner.preload(); '
                    'print("DIGESTS " + json.dumps(selftest.digests(%r, 1, %d, %r))); '
                    'core.shutdown_pool()' % (core.VERIF, pid, pid, n, rev))
            p = subprocess.run([sys.executable, '-c', code], env=e,
                               stdout=subprocess.PIPE, stderr=subprocess.PIPE)
            line = [l for l in p.stdout.decode().split('\n')
                    if l.startswith('DIGESTS ')]
            if p.returncode != 0 or not line:
                print('%s %s: FAILED to run: %s' % (pid, label,
                                                     p.stderr.decode()[-800:]))
                bad += 1
                continue
            runs[label] = json.loads(line[0][8:])
        labels = list(runs)
        ref = runs.get(labels[0]) if labels else None
        for lab in labels[1:]:
            diff = [i for i, (a, b) in enumerate(zip(ref, runs[lab])) if a != b]
            if diff or len(ref) != len(runs[lab]):
                bad += 1
                print('%s: %s differs from %s at plans %s' % (pid, lab, labels[0],
                                                              diff[:10]))
                for i in diff[:3]:
                    print('   ', ref[i], runs[lab][i])
        if ref is not None:
            print('%s: %d plans x %d executions, distinct digests %d, '
                  'verdicts %s: %s' % (
                      pid, len(ref), len(labels), len({r[3] for r in ref}),
                      sorted({r[1] for r in ref}),
                      'DETERMINISTIC' if not bad else 'see above'))
    return 1 if bad else 0


def apply_patch_to_copy(patch_path, repo_copy):
    """Applies the hunks of a patch that concern yalafi/ (the scratch copy
    holds nothing else: README or test changes are irrelevant here)."""
    with open(patch_path, newline='') as f:
        text = f.read()
    parts = text.split('diff --git ')
    keep = [parts[0]] if not parts[0].strip() else []
    kept = ''.join('diff --git ' + p_ for p_ in parts[1:]
                   if p_.startswith('a/yalafi/'))
    tmp = tempfile.NamedTemporaryFile('w', suffix='.diff', delete=False,
                                      newline='')
    tmp.write(kept)
    tmp.close()
    try:
        p = subprocess.run(['patch', '-p1', '-s', '-d', repo_copy, '-i', tmp.name],
                           stdout=subprocess.PIPE, stderr=subprocess.STDOUT)
        return p.returncode == 0, p.stdout.decode('utf-8', 'replace')
    finally:
        os.unlink(tmp.name)


def make_copy():
    d = tempfile.mkdtemp(prefix='yalafi-mut-')
    os.makedirs(d + '/repo')
    shutil.copytree(os.environ.get('VERIF_REPO', '/repo') + '/yalafi',
                    d + '/repo/yalafi',
                    ignore=shutil.ignore_patterns('__pycache__'))
    return d


def run_check_on(pid, repo, evdir, budget='100'):
    env = dict(os.environ)
    env.update({'VERIF_REPO': repo, 'VERIF_EVIDENCE_DIR': evdir,
                'VERIF_BUDGET_S': budget, 'PYTHONHASHSEED': '0',
                'PYTHONDONTWRITEBYTECODE': '1', 'PYTHONPATH': core.VERIF})
    p = subprocess.run([sys.executable, os.path.join(core.VERIF, 'sim', 'main.py'),
                        pid, '--tier', 'quick'], env=env,
                       stdout=subprocess.PIPE, stderr=subprocess.STDOUT)
    return p.returncode, p.stdout.decode('utf-8', 'replace')


def cmd_sensitivity(args):
    sys.path.insert(0, os.path.join(core.VERIF, 'selftest'))
    import mutants
    sel = [m for m in mutants.MUTANTS
           if not args or any(m[1].startswith(a) or m[0] == a for a in args)]
    missed = []
    # the unpatched copy must pass
    for pid in sorted({m[0] for m in sel}):
        d = make_copy()
        try:
            rc, out = run_check_on(pid, d + '/repo', d + '/evidence')
            print('%s unpatched copy: exit %d' % (pid, rc))
            if rc != 0:
                missed.append((pid, 'UNPATCHED-COPY-ALARM'))
                print(out[-1500:])
        finally:
            shutil.rmtree(d, ignore_errors=True)
    for (pid, name, path, old, new) in sel:
        d = make_copy()
        try:
            p = d + '/repo/' + path
            with open(p, newline='') as f:
                s = f.read()
            olds, news = (old, new) if isinstance(old, list) else ([old], [new])
            okay = True
            for o, n_ in zip(olds, news):
                if s.count(o) != 1:
                    print('%s: pattern occurs %d times, not applied' % (name,
                                                                        s.count(o)))
                    okay = False
                    break
                s = s.replace(o, n_)
            if not okay:
                missed.append((pid, name + ' (not applicable)'))
                continue
            with open(p, 'w', newline='') as f:
                f.write(s)
            rc, out = run_check_on(pid, d + '/repo', d + '/evidence')
            classes = sorted({l.split('class=')[1].split(' ')[0]
                              for l in out.split('\n') if 'violation class=' in l})
            print('%-28s -> %s exit %d %s' % (name, pid, rc, classes))
            if rc != 1:
                missed.append((pid, name))
        finally:
            shutil.rmtree(d, ignore_errors=True)
    print('sensitivity: %d mutants, %d not detected %s'
          % (len(sel), len(missed), missed))
    return 1 if missed else 0


def cmd_regressions(args):
    bad = 0
    for path in sorted(glob.glob(os.path.join(core.VERIF, 'regressions', '*.json'))):
        with open(path) as f:
            pid = json.load(f)['property']
        mod = importlib.import_module(MODS[pid])
        from sim import runner
        runner.preload()
        rc = core.do_replay(mod, pid, path)
        print('%s -> exit %d' % (os.path.basename(path), rc))
        if rc != 0:
            bad += 1
    return 1 if bad else 0


def cmd_seeded(args):
    """Applies every /verif/seeded/<id>/patch.diff to a scratch copy and runs
    the quick check of the property it breaks; expects exit 1."""
    missed = []
    for d in sorted(glob.glob(os.path.join(core.VERIF, 'seeded', '*'))):
        name = os.path.basename(d)
        if args and not any(name.startswith(a) for a in args):
            continue
        try:
            with open(d + '/meta.json') as f:
                meta = json.load(f)
        except (OSError, ValueError):
            continue
        pid = meta['property']
        tmp = tempfile.mkdtemp(prefix='yalafi-seeded-')
        try:
            os.makedirs(tmp + '/repo')
            shutil.copytree('/repo/yalafi', tmp + '/repo/yalafi',
                            ignore=shutil.ignore_patterns('__pycache__'))
            okay, msg = apply_patch_to_copy(d + '/patch.diff', tmp + '/repo')
            if not okay:
                print('%s: patch does not apply: %s' % (name, msg[-300:]))
                missed.append(name + ' (patch)')
                continue
            rc, out = run_check_on(pid, tmp + '/repo', tmp + '/evidence',
                                   budget=os.environ.get('VERIF_BUDGET_S', '150'))
            classes = sorted({l.split('class=')[1].split(' ')[0]
                              for l in out.split('\n') if 'violation class=' in l})
            print('%-34s -> %s exit %d %s' % (name, pid, rc, classes))
            if rc != 1:
                missed.append(name)
        finally:
            shutil.rmtree(tmp, ignore_errors=True)
    print('seeded: not detected: %s' % missed)
    return 1 if missed else 0


def cmd_benign(args):
    """Applies every /verif/benign/<id>/patch.diff (a property-preserving
    change written by an independent sub-agent) to a scratch copy and runs all
    five quick checks; every one must exit 0."""
    alarms = []
    for d in sorted(glob.glob(os.path.join(core.VERIF, 'benign', '*'))):
        name = os.path.basename(d)
        if args and not any(name.startswith(a) for a in args):
            continue
        tmp = tempfile.mkdtemp(prefix='yalafi-benign-')
        try:
            os.makedirs(tmp + '/repo')
            shutil.copytree('/repo/yalafi', tmp + '/repo/yalafi',
                            ignore=shutil.ignore_patterns('__pycache__'))
            okay, msg = apply_patch_to_copy(d + '/patch.diff', tmp + '/repo')
            if not okay:
                print('%s: patch does not apply: %s' % (name, msg[-300:]))
                alarms.append(name + ' (patch)')
                continue
            only = os.environ.get('VERIF_BENIGN_CHECKS', '').split()
            for pid in PIDS:
                if only and pid not in only:
                    continue            # a quicker pass over chosen checks
                rc, out = run_check_on(pid, tmp + '/repo', tmp + '/evidence',
                                       budget=os.environ.get('VERIF_BUDGET_S', '150'))
                print('%-46s %s exit %d' % (name, pid, rc))
                if rc != 0:
                    alarms.append('%s/%s' % (name, pid))
                    print(out[-1200:])
        finally:
            shutil.rmtree(tmp, ignore_errors=True)
    print('benign: alarms: %s' % alarms)
    return 1 if alarms else 0


def main(args):
    if not args:
        print(__doc__)
        return 2
    cmd = {'determinism': cmd_determinism, 'sensitivity': cmd_sensitivity,
           'regressions': cmd_regressions, 'seeded': cmd_seeded,
           'benign': cmd_benign,
           '_digests': cmd_digests}.get(args[0])
    if cmd is None:
        print(__doc__)
        return 2
    try:
        return cmd(args[1:])
    finally:
        core.shutdown_pool()
