"""C17 - results do not depend on what was processed before.

Two systems under test: histories of tex2txt() calls in one interpreter, and
histories of HTTP requests to one `--as-server` process (with duplicated,
re-ordered and malformed requests).  Oracle: every operation of the history is
also executed alone in a pristine process; results must be identical.
Histories are pair-biased: a state-carrier catalogue provides (polluter, probe)
pairs.  See DESIGN.md §4 C17.
"""

import copy
import json
import os

from sim import core, docgen, runner, shellscen

PID = 'C17'
LEVEL = 'exploration'
MOD = 'sim.scen_c17'

runner.LEAN = True      # children import extension modules on demand


# ---------------------------------------------------------------------
#   state-carrier catalogue: (polluter, probe) pairs
# ---------------------------------------------------------------------

def _name(rng, prefix):
    return prefix + ''.join(rng.choice('abcdefghijklmnop') for _ in range(4))


def c_newcommand(rng, W):
    n = _name(rng, 'ucm')
    g, a, b = W.word(True), W.word(), W.word()
    how = rng.choice(['newcommand', 'def', 'defs_option', 'ltinput'])
    car = {'name': 'user_macro:' + how,
           'probe': '%s \\%s{} %s.\n' % (a, n, b)}
    if how == 'newcommand':
        car['pol'] = '\\newcommand{\\%s}{%s}\nText.\n' % (n, g)
    elif how == 'def':
        car['pol'] = '\\def\\%s{%s}\nText \\%s.\n' % (n, g, n)
    elif how == 'defs_option':
        car['pol'] = 'Only text %s.\n' % W.word()
        car['pol_opts'] = {'defs': '\\newcommand{\\%s}{%s}\n' % (n, g)}
    else:
        f = _name(rng, 'defs') + '.tex'
        car['pol'] = '\\LTinput{%s}\nText.\n' % f
        car['files'] = {f: {'text': '\\newcommand{\\%s}{%s}\n' % (n, g)}}
    if rng.random() < 0.3:
        car['probe_opts'] = {'unkn': True}
    return car


def c_renewcommand(rng, W):
    g, a = W.word(True), W.word()
    mac = rng.choice(['TeX', 'LaTeX', 'ss', 'quad', 'label', 'hfill'])
    return {'name': 'renew_builtin',
            'pol': '\\renewcommand{\\%s}{%s}\nText \\%s{}.\n' % (mac, g, mac),
            'probe': '%s \\%s{} x.\n' % (a, mac)}


def c_newtheorem(rng, W):
    n = _name(rng, 'uth')
    a, b = W.word(), W.word()
    return {'name': 'user_environment',
            'pol': '\\newtheorem{%s}{Satz}\n\\begin{%s}\nx\n\\end{%s}\n' % (n, n, n),
            'probe': '\\begin{%s}[%s]\n%s.\n\\end{%s}\n' % (n, a, b, n)}


def c_package(rng, W):
    a, b = W.word(), W.word()
    pk, probe = rng.choice([
        ('amsmath', '%s $x \\text{%s} y$ and\n\\begin{align}\n a &= b \\\\\n'
                    ' c &= d.\n\\end{align}\n' % (a, b)),
        ('xspace', '%s\\xspace %s.\n' % (a, b)),
        ('unicode-math', '%s\n\\begin{eqnarray}\n a &=& b \\\\\n &≤& c.\n'
                         '\\end{eqnarray}\n%s.\n' % (a, b)),
        ('biblatex', '%s \\autocite{k} \\parencite[p.~1]{k} %s.\n' % (a, b)),
        ('hyperref', '%s \\href{http://x.y}{%s} \\url{http://z}.\n' % (a, b)),
        ('xcolor', '%s \\textcolor{red}{%s}.\n' % (a, b)),
        ('graphicx', '%s \\includegraphics[width=1cm]{f.png} %s.\n' % (a, b)),
        ('amsthm', '\\begin{proof}\n%s %s.\n\\end{proof}\n' % (a, b)),
        ('glossaries', '%s \\gls{lab} %s.\n' % (a, b)),
        ('listings', '%s \\lstinline|code| %s.\n' % (a, b)),
        ('mathtools', '%s $x \\text{%s} y$.\n' % (a, b)),
    ])
    how = rng.choice(['usepackage', 'pack_option'])
    car = {'name': 'package:' + pk, 'probe': probe, 'probe_opts': {'pack': ''}}
    if how == 'usepackage':
        car['pol'] = '\\usepackage{%s}\nText.\n' % pk
        car['pol_opts'] = {'pack': ''}
    else:
        car['pol'] = 'Text %s.\n' % W.word()
        car['pol_opts'] = {'pack': pk}
    return car


def c_cleveref(rng, W):
    a = W.word()
    f = _name(rng, 'cr') + '.sed'
    sed = ('s/\\\\cref\\*{lab}/Abschnitt eins/g\n'
           's/\\\\cref{lab}/Abschnitt eins/g\n'
           's/\\\\Cref{lab}/Abschnitt eins/g\n')
    f2 = _name(rng, 'cr') + '.sed'
    sed2 = 's/\\\\cref{other}/Kapitel zwei/g\n'
    probe = rng.choice([
        # the later document never loads a sed file ...
        '\\usepackage[poorman]{cleveref}\n%s \\cref{lab}.\n' % a,
        # ... or loads its own one, which does not know the label
        '\\usepackage[poorman]{cleveref}\n\\YYCleverefInput{%s}\n'
        '%s \\cref{lab} and \\cref{other}.\n' % (f2, a)])
    return {'name': 'cleveref_table',
            'pol': '\\usepackage[poorman]{cleveref}\n\\YYCleverefInput{%s}\n'
                   'See \\cref{lab}.\n' % f,
            'probe': probe,
            'files': {f: {'text': sed}, f2: {'text': sed2}}}


def c_docclass(rng, W):
    a = W.word()
    return {'name': 'class_options',
            'pol': '\\documentclass[ngerman]{scrartcl}\nText.\n',
            'probe': rng.choice([
                '\\usepackage{babel}\n%s "a "o $x$.\n' % a,
                '\\KOMAoption{fontsize}{12pt} %s.\n' % a,
                '%s "a $x$ \\begin{proof}\nx\n\\end{proof}\n' % a])}


def c_name_zoo(rng, W):
    # names that some class or package module defines: whatever such a
    # module registers for one call must be gone for the next, so a later
    # document that loads nothing sees all of them as unknown macros
    w = [W.word() for _ in range(4)]
    zoo = ('\\addsec{%s} \\addchap{%s} \\addpart{P} \\minisec{M} \\chapter{C}\n'
           '\\subject{S} \\publishers{U} \\frontmatter \\KOMAoptions{x} '
           '\\cref{l} \\Cref{l} \\gls{g} \\SI{3}{m} \\enquote{%s}\n'
           '\\textcite{k} \\parencite{k} \\autoref{l} \\url{u} \\href{u}{h} '
           '\\textcolor{red}{c} \\includegraphics{f} \\text{t} \\xspace %s\n'
           '\\subsubsection{X} \\paragraph{Y} \\captionof{figure}{Z} \\eqref{e}.\n'
           % tuple(w))
    pol = rng.choice([
        ('\\documentclass{%s}\nText.\n' % rng.choice(
            ['scrartcl', 'scrbook', 'scrreprt', 'book', 'report', 'article']), {}),
        ('Text.\n', {'dcls': rng.choice(['scrartcl', 'scrbook', 'scrreprt',
                                          'book', 'report'])}),
        ('\\usepackage{%s}\nText.\n' % rng.choice(
            ['cleveref', 'glossaries', 'biblatex', 'hyperref', 'xcolor',
             'graphicx', 'amsmath', 'xspace', 'geometry', 'babel']), {'pack': ''}),
        ('Text.\n', {'pack': '*'}),
    ])
    o = dict(pol[1])
    o.setdefault('pack', '')
    # the later document may load a module of its own (tables shared between
    # modules are looked at only then)
    zoo = rng.choice(['', '', '\\documentclass{article}\n',
                      '\\usepackage{geometry}\n',
                      '\\newtheorem{thmz}{Satz}\n']) + zoo
    return {'name': 'module_names', 'pol': pol[0], 'pol_opts': o,
            'probe': zoo, 'probe_opts': {'pack': '', 'unkn': rng.random() < 0.5}}


def c_language(rng, W):
    a, b = W.word(), W.word()
    pol = rng.choice([
        '\\usepackage[ngerman]{babel}\nText "a.\n',
        '\\usepackage[russian]{babel}\nText.\n',
        '\\selectlanguage{german}\nText.\n',
        '\\begin{otherlanguage}{russian}\nText ohne Ende.\n',
        'Text \\foreignlanguage{german}{sehr langer deutscher Text ohne Ende',
    ])
    probe = rng.choice([
        '%s "a "o "s %s.\n' % (a, b),
        '%s $x$ and $y$.\n\\begin{proof}\n%s.\n\\end{proof}\n' % (a, b),
        '%s\n\\[ x = y \\]\n%s.\n' % (a, b),
        '%s \\foreignlanguage{french}{%s un deux} x.\n' % (a, b),
    ])
    ml = rng.random() < 0.5
    return {'name': 'language', 'pol': pol, 'probe': probe,
            'pol_ml': ml, 'probe_ml': rng.random() < 0.5}


def c_babel_table(rng, W):
    # state named in the property: babel's module-level name table
    a, b = W.word(), W.word()
    x = rng.choice(['naustrian', 'klingon', 'latin', 'swissgerman', 'nynorsk'])
    pol = rng.choice([
        'Text \\foreignlanguage{%s}{ein zwei drei vier} Ende.\n' % x,
        'Text.\n\\selectlanguage{%s}\nMehr Text.\n' % x,
        '\\begin{otherlanguage}{%s}\nText.\n\\end{otherlanguage}\n' % x,
    ])
    known = rng.choice(['ngerman', 'russian', 'french'])
    probe = rng.choice([
        '\\usepackage[%s,%s]{babel}\n%s "a $x$ %s.\n' % (known, x, a, b),
        '\\documentclass[%s,%s]{article}\n\\usepackage{babel}\n%s $x$ %s.\n'
        % (known, x, a, b),
    ])
    return {'name': 'babel_name_table', 'pol': pol, 'probe': probe,
            'pol_ml': rng.random() < 0.7, 'probe_ml': rng.random() < 0.7}


def c_ienc(rng, W):
    # option ienc governs how \LTinput files are decoded
    a = W.word()
    f1, f2 = _name(rng, 'enc') + '.tex', _name(rng, 'enc') + '.tex'
    return {'name': 'input_encoding',
            'pol': '\\LTinput{%s}\nText \\encmac.\n' % f1,
            'pol_opts': {'ienc': 'latin-1'},
            'probe': '\\LTinput{%s}\n%s \\encmac.\n' % (f2, a),
            'files': {f1: {'text': '\\newcommand{\\encmac}{Grüße}\n',
                           'enc': 'latin-1'},
                      f2: {'text': '\\newcommand{\\encmac}{Grüße ж}\n'}}}


def c_file_rewritten(rng, W):
    # "... a function of the document, the options and the files it reads":
    # the same file name, other content when the later operation reads it
    a = W.word()
    f = _name(rng, 'chg') + rng.choice(['.tex', '.glsdefs'])
    g1, g2 = W.word(True), W.word(True)
    if f.endswith('.tex'):
        v1 = '\\newcommand{\\chgmac}{%s}\n' % g1
        v2 = '\\newcommand{\\chgmac}{%s}\n' % g2
        use = '\\chgmac{}'
    else:
        tmpl = ('\\gls@defglossaryentry{lab}%%\n{%%\nname={%s},%%\ntext={%s},%%\n'
                'plural={%ss},%%\ndescription={d}%%\n}%%\n')
        v1, v2 = tmpl % (g1, g1, g1), tmpl % (g2, g2, g2)
        use = '\\gls{lab}'
    return {'name': 'file_rewritten',
            'pol': '\\LTinput{%s}\nText %s.\n' % (f, use),
            'probe': '\\LTinput{%s}\n%s %s.\n' % (f, a, use),
            'files': {f: {'text': v1}},
            'probe_files': {f: {'text': v2}}}


def c_xspace(rng, W):
    # tables of a package extended while it works under another language
    a = W.word()
    dfn = '\\newcommand{\\yal}{YaLafi\\xspace}\n'
    return {'name': 'package_table:xspace',
            'pol': dfn + '\\yal ist da, \\yal. Und \\yal "a \\yal\n',
            'pol_opts': {'lang': rng.choice(['de', 'de-DE']), 'pack': '*'},
            'probe': dfn + 'The \\yal "filter" %s \\yal. \\yal\'s \\yal-x \\yal x.\n' % a,
            'probe_opts': {'lang': rng.choice(['en', 'en-GB', 'ru']), 'pack': '*'}}


def c_lang_option(rng, W):
    a, b = W.word(), W.word()
    return {'name': 'language_option',
            'pol': 'Text $x$ "a.\n\\begin{proof}\nx\n\\end{proof}\n',
            'pol_opts': {'lang': rng.choice(['de', 'de-DE', 'ru', 'ru-RU'])},
            'probe': '%s $x$ "a %s.\n\\begin{proof}\ny\n\\end{proof}\n' % (a, b),
            'probe_opts': {'lang': rng.choice(['en', 'en-GB', ''])}}


def c_rotation(rng, W):
    a, b = W.word(), W.word()
    k = rng.randrange(1, 6)
    kind = rng.choice(['inline', 'display', 'langchange'])
    if kind == 'inline':
        return {'name': 'placeholder_rotation:inline',
                'pol': ' '.join('$x_%d$' % i for i in range(k)) + ' text.\n',
                'probe': '%s $u$ and $v$ %s.\n' % (a, b)}
    if kind == 'display':
        return {'name': 'placeholder_rotation:display',
                'pol': ''.join('Text\n\\[ a_%d = b \\]\n' % i for i in range(k)),
                'probe': '%s\n\\[ u = v \\]\n%s\n\\begin{equation}\n w.\n'
                         '\\end{equation}\n' % (a, b)}
    return {'name': 'placeholder_rotation:langchange',
            'pol': ' '.join('Wort \\foreignlanguage{german}{ein%d}' % i
                            for i in range(k)) + ' Ende.\n',
            'probe': '%s \\foreignlanguage{french}{oui} %s '
                     '\\foreignlanguage{french}{non} x.\n' % (a, b),
            'pol_ml': True, 'probe_ml': True}


def c_items(rng, W):
    a, b = W.word(), W.word()
    pol = rng.choice([
        '\\begin{enumerate}\n\\item x\n\\begin{enumerate}\n\\item y\n',
        '\\begin{enumerate}\n\\item x\n\\item y\n\\item z\n',
        '\\begin{itemize}\n\\item x\n\\begin{itemize}\n\\item y\n'
        '\\begin{itemize}\n\\item z\n',
    ])
    probe = rng.choice([
        '\\item %s\n\\item %s\n' % (a, b),
        '\\begin{enumerate}\n\\item %s\n\\item %s\n\\end{enumerate}\n' % (a, b),
        '\\begin{itemize}\n\\item %s\n\\begin{enumerate}\n\\item %s\n'
        '\\end{enumerate}\n\\end{itemize}\n' % (a, b),
    ])
    return {'name': 'item_labels', 'pol': pol, 'probe': probe}


def c_glossary(rng, W):
    a, b = W.word(), W.word()
    f = _name(rng, 'gl') + '.glsdefs'
    body = ('\\gls@defglossaryentry{lab}%\n{%\nname={Term},%\ntext={term},%\n'
            'plural={terms},%\ndescription={the description}%\n}%\n')
    probe = rng.choice(['%s \\gls{lab} %s.\n', '%s \\Glspl{lab} %s.\n',
                        '%s \\glsdesc{lab} %s.\n']) % (a, b)
    return {'name': 'glossary',
            'pol': '\\LTinput{%s}\nText \\gls{lab}.\n' % f,
            'probe': probe, 'files': {f: {'text': body}}}


def c_flows(rng, W):
    a, b = W.word(), W.word()
    return {'name': 'detached_flows',
            'pol': 'Text\\footnote{%s in footnote.} more.\n\\begin{figure}\n'
                   '\\caption{%s caption.}\n\\end{figure}\n' % (W.word(), W.word()),
            'probe': '%s %s.\n' % (a, b)}


def c_unknowns(rng, W):
    return {'name': 'unknowns_list',
            'pol': 'Text \\%s{} and \\begin{%s}\nx\n\\end{%s}\n'
                   % (_name(rng, 'zzu'), _name(rng, 'zze'), _name(rng, 'zze')),
            'pol_opts': {'unkn': rng.random() < 0.5},
            'probe': 'Text \\%s{} %s.\n' % (_name(rng, 'zzp'), W.word()),
            'probe_opts': {'unkn': True}}


def c_option_flag(rng, W):
    a, b, c = W.word(), W.word(), W.word()
    doc = ('\\section{%s}\n%s\\footnote{%s.} \\LTskip{hid} %% comm\n'
           '\\[ x = y \\]\n\\textbf{%s} \\emph{x}.\n'
           'Written in \\LaTeX{} and \\TeX, see \\ref{s} on page \\pageref{s}, '
           'Stra\\ss{}e \\S 3 \\quad x\\newline y.\n' % (a, b, c, W.word()))
    flag = rng.choice([
        ('extr', {'extr': rng.choice(['footnote,section', 'section',
                                      'textbf,emph', 'caption'])}),
        ('nosp', {'nosp': True}),
        ('seqs', {'seqs': True}),
        ('repl', {'repl': ['%s & qreplacedz zwei\n' % b]}),
        ('dcls', {'dcls': 'scrartcl'}),
        ('pack', {'pack': rng.choice(['', 'amsmath', 'babel,xspace'])}),
    ])
    return {'name': 'option_flag:' + flag[0], 'pol': doc, 'pol_opts': flag[1],
            'probe': doc}


def c_shared_options(rng, W):
    # a caller that builds its Options once (values obtained with the
    # library's own readers) and passes the object to every call
    a, b = W.word(), W.word()
    files = {'repl.txt': {'text': '# phrases\n\nso dass & sodass\n%s & qersetztz\n' % a},
             'defs.tex': {'text': '\\newcommand{\\fromdefs}[1]{<#1>}\n'}}
    o = {'_share': True}
    kind = rng.choice(['repl', 'defs', 'both', 'plain'])
    if kind in ('repl', 'both'):
        o['_repl_file'] = 'repl.txt'
    if kind in ('defs', 'both'):
        o['_defs_file'] = 'defs.tex'
    doc = 'Er sagt, so dass %s es \\fromdefs{%s} sieht.\n' % (a, b)
    return {'name': 'options_object:' + kind, 'files': files,
            'pol': doc, 'pol_opts': o, 'probe': doc, 'probe_opts': dict(o),
            'same_base': True}


def c_package_zoo(rng, W):
    # macro / environment objects of pre-loaded packages must not carry what
    # an option of an earlier call did to them (extraction rewrites every
    # loaded macro in place)
    w = [W.word() for _ in range(8)]
    doc = ('\\section{%s}\n'
           'See \\cite{knuth} and \\parencite[p. 7]{lamport}\\footcite{kx}, %s.\n'
           '\\href{http://x.org}{%s} \\url{http://y.org} '
           '\\textcolor{red}{%s} \\colorbox{blue}{%s} \\fcolorbox{red}{blue}{fb}\n'
           '\\includegraphics[width=3cm]{fig} \\eqref{e} \\substack{a}\n'
           '\\begin{proof} %s. \\end{proof}\n'
           '\\foreignlanguage{german}{eins zwei}\n'
           '\\DeclareMathOperator{\\sn}{sn} $\\sn x$ und\n'
           '\\begin{tikzpicture} \\draw (0,0); \\end{tikzpicture}\n'
           '\\begin{lstlisting}\ncode line\n\\end{lstlisting}\n'
           '%s\\xspace %s.\n' % tuple(w))
    flag = rng.choice([
        {'extr': rng.choice(['cite,href', 'section,footcite', 'textcolor',
                             'parencite,includegraphics', 'foreignlanguage'])},
        {'nosp': True}, {'seqs': True}, {'unkn': True},
        {'repl': ['%s & qreplacedz zwei\n' % w[1]]},
        {'lang': 'de'}, {'lang': 'ru'},
    ])
    opts = dict(flag)
    opts['pack'] = rng.choice(['*', '*', 'biblatex,hyperref,xcolor,babel'])
    return {'name': 'package_objects:' + sorted(flag)[0], 'pol': doc,
            'pol_opts': opts, 'probe': doc,
            'probe_opts': {'pack': opts['pack']}}


def c_modparms(rng, W):
    a, b = W.word(), W.word()
    mod = rng.choice([{'ml_continue_thresh': 0}, {'ml_continue_thresh': 7},
                      {'mark_latex_error': 'ZZZMARK'},
                      {'math_displayed_simple': True}])
    doc = ('%s \\foreignlanguage{german}{eins zwei drei} %s.\n$x\n' % (a, b)
           + '\\[ u = v \\]\n')
    return {'name': 'modify_parms', 'pol': doc, 'pol_mod': mod, 'probe': doc,
            'pol_ml': True, 'probe_ml': True}


def c_recovery(rng, W):
    a, b = W.word(), W.word()
    pol = rng.choice([
        'Text \\textbf{offen %s' % a,
        'Text $x + y',
        'Text\n\\begin{equation}\n a = b',
        'Text\n\\begin{verbatim}\nx y',
        'Text \\verb|abc',
        'Text\n%%% LT-SKIP-BEGIN\nhidden',
        'Text \\footnote[1',
        'Text \\begin{itemize}\n\\item[offen',
        '\\newcommand{\\%s}[1]{#2}\n' % _name(rng, 'bad'),
        'Text \\"1 x.\n',
        '\\begin{otherlanguage*}{german}\nx',
    ])
    return {'name': 'parser_recovery', 'pol': pol,
            'probe': '%s $x$ \\textbf{%s}.\n' % (a, b)}


CARRIERS = [c_newcommand, c_newcommand, c_renewcommand, c_newtheorem, c_package,
            c_package, c_cleveref, c_docclass, c_name_zoo, c_language, c_language,
            c_lang_option, c_ienc, c_xspace, c_package_zoo, c_shared_options,
            c_file_rewritten, c_file_rewritten, c_babel_table, c_babel_table, c_rotation, c_rotation, c_items, c_glossary,
            c_glossary, c_flows, c_unknowns, c_option_flag, c_option_flag,
            c_modparms, c_recovery]


# ---------------------------------------------------------------------
#   library histories
# ---------------------------------------------------------------------

def base_opts(rng):
    o = {'lang': rng.choice(['en', 'en-GB', 'de', 'de-DE', 'ru', '']),
         'pack': rng.choice(['*', '*', '*', '', 'amsmath,babel'])}
    if rng.random() < 0.1:
        o['dcls'] = rng.choice(['article', 'scrartcl', 'book'])
    return o


def mk_op(text, opts, ml=False, mod=None, role=None, carrier=None):
    op = {'latex': text, 'opts': opts, 'ml': bool(ml)}
    if mod:
        op['mod'] = mod
    if role:
        op['role'] = role
        op['carrier'] = carrier
    return op


def filler_op(rng, W):
    frags = docgen.gen_document(rng, n_frags=rng.randrange(1, 10), W=W,
                                ml=rng.random() < 0.3)
    text = docgen.doc_text(frags)
    if rng.random() < 0.25 and len(text) > 10:
        text = text[:rng.randrange(1, len(text))]      # keystroke state
    o = base_opts(rng)
    if rng.random() < 0.1:
        o['unkn'] = True
    return mk_op(text, o, ml=rng.random() < 0.3)


def gen_lib_plan(rng, idx):
    W = docgen.Words(rng)
    files = {}
    ops = []
    pairs = []
    for _ in range(rng.choice([1, 1, 2])):
        car = rng.choice(CARRIERS)(rng, W)
        files.update(car.get('files', {}))
        b = base_opts(rng)
        po = dict(b)
        po.update(car.get('pol_opts', {}))
        same = rng.random() < 0.6 or car.get('same_base')
        qo = dict(b if same else base_opts(rng))
        qo.update(car.get('probe_opts', {}))
        pad = ''
        if rng.random() < 0.4:
            pad = docgen.doc_text(docgen.gen_document(
                rng, n_frags=rng.randrange(1, 5), W=W))
        pol = mk_op(car['pol'] if rng.random() < 0.5 or not pad
                    else pad + car['pol'], po, ml=car.get('pol_ml'),
                    mod=car.get('pol_mod'), role='polluter',
                    carrier=car['name'])
        probe = mk_op(car['probe'] + (pad if rng.random() < 0.3 else ''), qo,
                      ml=car.get('probe_ml'), role='probe',
                      carrier=car['name'])
        if car.get('probe_files'):
            probe['files'] = car['probe_files']
            # a repeated polluter finds the first version again
            pol['files'] = {k: v for k, v in car['files'].items()
                            if k in car['probe_files']}
        pairs.append((pol, probe, rng.choice([0, 0, 0, 1, 1, 2])))
    pre = [filler_op(rng, W) for _ in range(rng.choice([0, 0, 1, 2]))]
    if any(p_[0]['carrier'].startswith('option_flag') for p_ in pairs) \
            and rng.random() < 0.7:
        # "the very first call of the process" is a position of its own
        # (whatever is built once is built by that call)
        pre = []
    ops += pre
    for pol, probe, dist in pairs:
        ops.append(pol)
        for _ in range(dist):
            ops.append(filler_op(rng, W))
        ops.append(probe)
        if rng.random() < 0.2:
            ops.append(copy.deepcopy(probe))        # "and when repeated"
        if rng.random() < 0.15:
            ops.append(copy.deepcopy(pol))
            ops.append(copy.deepcopy(probe))
    if rng.random() < 0.3:
        ops.append(filler_op(rng, W))
    if len(pairs) == 2 and rng.random() < 0.5:
        # interleave: polluter A, polluter B, probe A, probe B
        (pa, qa, _), (pb, qb, _) = pairs
        ops = pre + [pa, pb, qa, qb]
    return {'system': 'lib', 'kind': 'lib', 'ops': ops[:10], 'files': files,
            '_index': idx}


# ---------------------------------------------------------------------
#   histories over a corpus of real documents: every LaTeX input of the
#   repository's own tests (used as documents only). Pairs are biased
#   towards documents that use the same macro or environment, so that
#   whatever one call leaves behind for that name is looked at by the next.
# ---------------------------------------------------------------------

_CORPUS = None


def corpus():
    global _CORPUS
    if _CORPUS is None:
        import re
        path = os.path.join(os.path.dirname(os.path.abspath(__file__)),
                            'corpus_c17.json')
        docs = json.load(open(path))['docs']
        by_name = {}
        for i, d in enumerate(docs):
            names = set(re.findall(r'\\[A-Za-z]+', d['latex']))
            names |= set('env:' + e for e in
                         re.findall(r'\\begin\{([A-Za-z*]+)\}', d['latex']))
            d['names'] = sorted(names)
            for n in names:
                by_name.setdefault(n, []).append(i)
        shared = sorted(n for n, l in by_name.items() if len(l) >= 2
                        and n not in ('\\begin', '\\end'))
        _CORPUS = (docs, by_name, shared)
    return _CORPUS


def corpus_opts(rng, doc):
    o = base_opts(rng)
    if doc.get('opts') and rng.random() < 0.5:
        o.update(doc['opts'])
    r = rng.random()
    if r < 0.12 and doc['names']:
        o['extr'] = ','.join(n.lstrip('\\') for n in rng.sample(
            [n for n in doc['names'] if not n.startswith('env:')] or ['x'],
            1))
    elif r < 0.18:
        o['nosp'] = True
    elif r < 0.24:
        o['seqs'] = True
    elif r < 0.30:
        o['unkn'] = True
    elif r < 0.34:
        o['char'] = True
    return o


def gen_corpus_plan(rng, idx):
    docs, by_name, shared = corpus()
    ops = []
    for _ in range(rng.choice([1, 1, 2])):
        name = rng.choice(shared)
        ia, ib = rng.choice(by_name[name]), rng.choice(by_name[name])
        if rng.random() < 0.15:
            ib = ia                 # same document, options may differ
        a, b = docs[ia], docs[ib]
        po = corpus_opts(rng, a)
        qo = dict(po) if rng.random() < 0.35 else corpus_opts(rng, b)
        tag = 'corpus:' + name.replace('|', '/')
        ops.append(mk_op(a['latex'], po, ml=a.get('ml') or rng.random() < 0.15,
                         role='polluter', carrier=tag))
        for _ in range(rng.choice([0, 0, 0, 1])):
            c = rng.choice(docs)
            ops.append(mk_op(c['latex'], corpus_opts(rng, c),
                             ml=rng.random() < 0.15))
        ops.append(mk_op(b['latex'], qo, ml=b.get('ml') or rng.random() < 0.15,
                         role='probe', carrier=tag))
    if rng.random() < 0.15:
        ops.append(copy.deepcopy(ops[0]))
        ops.append(copy.deepcopy(ops[-2]))
    return {'system': 'lib', 'kind': 'lib', 'ops': ops[:8], 'files': {},
            '_index': idx, 'corpus': True}


def strip_op(op):
    return {k: v for k, v in op.items() if k not in ('role', 'carrier')}


def lib_result(obs, rec):
    return {'status': rec['status'], 'ret': rec.get('ret'),
            'stderr': runner.lib_stderr(obs, rec)}


def evaluate_lib(plan):
    ops = [strip_op(o) for o in plan['ops']]
    hist = runner.execute({'kind': 'lib', 'ops': ops, 'files': plan['files']})
    if runner.is_harness_error(hist):
        return core.harness(hist['status'])
    runs = 1
    recs = hist['extra'].get('lib', [])
    probes = {}
    cache = {}
    digest = hist['digest']
    fstate = dict(plan['files'])
    for i, rec in enumerate(recs):
        if ops[i].get('files'):
            fstate = dict(fstate)
            fstate.update(ops[i]['files'])
        key = json.dumps([ops[i], sorted(fstate.items(), key=lambda kv: kv[0])
                          if ops[i].get('files') or any(
                              o.get('files') for o in ops) else None],
                         sort_keys=True)
        if key not in cache:
            ref = runner.execute({'kind': 'lib', 'ops': [
                {k: v for k, v in ops[i].items() if k != 'files'}],
                'files': fstate})
            runs += 1
            if runner.is_harness_error(ref):
                return core.harness(ref['status'], runs=runs)
            cache[key] = lib_result(ref, ref['extra']['lib'][0])
        else:
            probes['repeated_op'] = 1
        want = cache[key]
        got = lib_result(hist, rec)
        if got['status'].startswith('exc:'):
            probes['filter_exception'] = 1
        if got != want:
            what = next(k for k in ('status', 'stderr', 'ret')
                        if got[k] != want[k])
            if what == 'ret':
                g, w = got['ret'] or {}, want['ret'] or {}
                if g.get('txt') != w.get('txt') or \
                        [[l, [p[0] for p in ps]] for l, ps in g.get('ml', [])] != \
                        [[l, [p[0] for p in ps]] for l, ps in w.get('ml', [])]:
                    what = 'text'
                else:
                    what = 'positions'
            detail = {'system': 'lib', 'op_index': i, 'differs': what,
                      'carrier': plan['ops'][i].get('carrier'),
                      'history': [{'latex': o['latex'][:160], 'opts': o['opts'],
                                   'ml': o['ml'], 'mod': o.get('mod'),
                                   'role': plan['ops'][j].get('role')}
                                  for j, o in enumerate(ops[:i + 1])],
                      'in_history': _short(got), 'alone': _short(want)}
            return core.violation('C17/lib-diverge:' + what, detail, digest,
                                  probes=probes, runs=runs, nontrivial=None)
        if rec['status'].startswith('exit:'):
            probes['history_ended_by_exit'] = 1
            break
    # coverage: which carrier pairs stood in polluter -> probe order
    pairs = {}
    pol_at = {}
    for i, o in enumerate(plan['ops'][:len(recs)]):
        if o.get('role') == 'polluter':
            pol_at[o['carrier']] = i
        elif o.get('role') == 'probe' and o['carrier'] in pol_at:
            d = i - pol_at[o['carrier']] - 1
            same = plan['ops'][pol_at[o['carrier']]]['opts'] == o['opts']
            k = 'lib|%s|d%d|%s' % (o['carrier'], min(d, 3),
                                   'same-opts' if same else 'diff-opts')
            pairs[k] = 1
    probes.update({'pair:' + k: 1 for k in pairs})
    nt = digest if pairs else None
    return core.ok(digest, probes=probes, runs=runs, nontrivial=nt,
                   fired=hist['fired'], pairs=sorted(pairs))


def _short(res):
    r = res.get('ret') or {}
    out = {'status': res['status'], 'stderr': res['stderr'][-300:]}
    if 'txt' in r:
        out['txt'] = r['txt'][:300]
        out['pos_head'] = r['pos'][:20]
    if 'ml' in r:
        out['ml'] = [[l, [p[0][:120] for p in ps]] for l, ps in r['ml']]
    return out


# ---------------------------------------------------------------------
#   server histories
# ---------------------------------------------------------------------

REQ_FAULTS = ['trunc_body', 'no_content_length', 'missing_language',
              'missing_text', 'bad_utf8', 'method', 'bad_percent']


def gen_server_plan(rng, idx):
    W = docgen.Words(rng)
    lang = rng.choice(['en-GB', 'de-DE', 'en-US', 'ru-RU'])
    argv = ['--as-server', '8082', '--lt-command', 'simlt', '--language', lang]
    files = {}
    if rng.random() < 0.4:
        argv.append('--multi-language')
    if rng.random() < 0.4:
        argv += ['--lt-options', '~' + rng.choice([
            '--disable X_RULE', '--languagemodel /ng --disable A,B',
            '-eo --enable E_RULE', '--disablecategories CAT --level PICKY'])]
    if rng.random() < 0.2:
        argv += ['--packages', rng.choice(['', 'amsmath', '*'])]
    if rng.random() < 0.2:
        files['sdefs.tex'] = {'text': '\\newcommand{\\srvmac}{qservz}\n'}
        argv += ['--define', 'sdefs.tex']
    replace = rng.random() < 0.15
    if replace:
        files['srepl.txt'] = {'text': '# phrases\n\nso dass & sodass\n'}
        argv += ['--replace', 'srepl.txt']
    if rng.random() < 0.25:
        # a trailing || stands for "and the placeholders of the language"
        argv += ['--single-letters', rng.choice(['A|a|I||', 'A|a|I', 'z.B.||'])]
    if rng.random() < 0.15:
        argv += ['--equation-punctuation', 'all']
    if rng.random() < 0.2:
        argv += ['--disable', 'CMD_RULE', '--ml-disable', 'ML_RULE']
    transport = rng.choice(['run', 'run', 'run', 'my'])
    http = {}
    if transport == 'my':
        argv += ['--server', 'my']
        http = {'initially_up': True}
    # clients: each owns a carrier pair or a document with keystroke states
    streams = []
    nclients = rng.choice([1, 2, 2, 3, 4])
    for c in range(nclients):
        fields = [['language', rng.choice([lang, lang, 'de-DE', 'fr', 'ru-RU',
                                           'en-GB'])]]
        if rng.random() < 0.35:
            fields.append(['disabledRules', rng.choice(['R1', 'R1,R2'])])
        if rng.random() < 0.15:
            fields.append(['enabledRules', 'E1'])
        if rng.random() < 0.15:
            fields.append(['enabledOnly', 'true'])
        if rng.random() < 0.15:
            fields.append(['disabledCategories', 'C1'])
        st = []
        if rng.random() < 0.7:
            car = rng.choice(CARRIERS)(rng, W)
            files.update(car.get('files', {}))
            st.append(('polluter', car['name'], car['pol'], fields,
                       {k: v for k, v in car.get('files', {}).items()
                        if k in car.get('probe_files', {})}))
            # the probe comes from the same or from another client's fields
            pf = fields if rng.random() < 0.6 else [['language', lang]]
            st.append(('probe', car['name'], car['probe'], pf,
                       car.get('probe_files')))
        else:
            text = docgen.doc_text(docgen.gen_document(
                rng, n_frags=rng.randrange(2, 8), W=W,
                ml='--multi-language' in argv))
            cuts = sorted(rng.sample(range(1, len(text) + 1),
                                     min(len(text), rng.randrange(1, 4))))
            for cut in cuts + [len(text)]:
                st.append((None, None, text[:cut], fields, None))
        streams.append(st)
    # the scheduler merges the client streams into one arrival order
    reqs = []
    heads = [0] * len(streams)
    while any(h < len(s) for h, s in zip(heads, streams)):
        c = rng.choice([i for i, s in enumerate(streams) if heads[i] < len(s)])
        role, carrier, text, fields, rfiles = streams[c][heads[c]]
        heads[c] += 1
        tp = rng.randrange(len(fields) + 1)
        req = {'client': c, 'fields': [list(f) for f in fields[:tp]]
               + [['text', text]] + [list(f) for f in fields[tp:]]}
        if role:
            req['role'] = role
            req['carrier'] = carrier
        if rfiles:
            req['files'] = rfiles
        reqs.append(req)
    # request-level network faults
    out = []
    for r in reqs:
        x = rng.random()
        if x < 0.10:
            out.append(r)
            d = copy.deepcopy(r)
            d['dup_of'] = True
            out.append(d)                               # duplicate delivery
        elif x < 0.22:
            f = copy.deepcopy(r)
            kind = rng.choice(REQ_FAULTS)
            f['fault'] = {'kind': kind}
            if kind == 'trunc_body':
                f['fault']['at'] = rng.randrange(0, 60)
            if kind == 'missing_language':
                f['fields'] = [x_ for x_ in f['fields'] if x_[0] != 'language']
            if kind == 'missing_text':
                f['fields'] = [x_ for x_ in f['fields'] if x_[0] != 'text']
            if kind == 'method':
                f['fault']['method'] = rng.choice(['GET', 'PUT'])
            out.append(f)
            if rng.random() < 0.5:
                out.append(r)                           # the client retries
        else:
            out.append(r)
    if rng.random() < 0.15 and len(out) > 2:
        i = rng.randrange(len(out) - 1)
        out[i], out[i + 1] = out[i + 1], out[i]          # out of order
    # clients that keep their connection open: the next request of the same
    # client travels on it if the server's response allowed that (HTTP/1.1
    # with Content-Length); with an HTTP/1.0 server every request gets a
    # connection of its own, whatever the client wishes
    out = [copy.deepcopy(r) for r in out[:12]]
    if replace:
        # every request uses a phrase of the --replace file
        for r in out:
            for f in r['fields']:
                if f[0] == 'text':
                    f[1] += '\nEr sagt, so dass es geht.\n'
    for i, r in enumerate(out):
        if i and rng.random() < 0.6:
            r['keep'] = True
            if out[i - 1].get('client', 0) == r.get('client', 0):
                # ... and says so in the request before (the header is part of
                # that request, also when it is replayed alone)
                out[i - 1]['conn'] = 'keep-alive'
    peer = {'flag_regex': docgen.WORD_RE, 'flag_limit': 6,
            'nonascii': True, 'http': http}
    return {'system': 'server', 'kind': 'shell', 'argv': argv, 'files': files,
            'requests': out[:12], 'peer': peer, 'names': [], '_index': idx}


def server_observe(plan, requests):
    p = {'kind': 'shell', 'argv': plan['argv'], 'files': plan['files'],
         'requests': [{k: v for k, v in r.items()
                       if k not in ('role', 'carrier')} for r in requests],
         'peer': plan['peer'], 'names': []}
    obs = runner.execute(p)
    if runner.is_harness_error(obs):
        return obs, None
    evs = obs['events']
    per = []
    cur = None
    for e in evs:
        if e[1] == 'accept':
            cur = {'idx': e[2]['idx'], 'err0': e[2]['err'], 'subs': [],
                   'err1': None, 'answered': False}
            per.append(cur)
        elif e[1] == 'submit' and cur is not None:
            cur['subs'].append({k: v for k, v in e[2].items()})
        elif e[1] == 'response' and cur is not None:
            cur['err1'] = e[2]['err']
            cur['answered'] = True
    resps = obs.get('responses', [])
    for i, c in enumerate(per):
        c['response'] = resps[i] if i < len(resps) else None
        a = c['err0']
        b = c['err1'] if c['err1'] is not None else len(obs['stderr_bytes'])
        c['stderr'] = drop_request_log(
            obs['stderr_bytes'][a:b].decode('utf-8', 'replace'))
    return obs, per


def drop_request_log(text):
    """The server's stderr carries diagnostics of the filter (compared: they
    are results of filtering) and the request log of http.server
    ('<host> - - [<date>] ...': operational logging, which may legitimately
    count requests - not compared)."""
    import re
    return ''.join(l for l in text.splitlines(True)
                   if not re.match(r'\S+ - - \[[^\]]*\] ', l))


def evaluate_server(plan):
    reqs = plan['requests']
    hist, per = server_observe(plan, reqs)
    if per is None:
        return core.harness(hist['status'])
    runs = 1
    probes = {}
    digest = hist['digest']
    cache = {}
    fstate = dict(plan['files'])
    any_files = any(q.get('files') for q in reqs)
    for i, got in enumerate(per):
        if reqs[i].get('files'):
            fstate = dict(fstate)
            fstate.update(reqs[i]['files'])
        r = {k: v for k, v in reqs[i].items()
             if k not in ('role', 'carrier', 'dup_of', 'files', 'keep')}
        key = json.dumps([r, sorted(fstate.items(), key=lambda kv: kv[0])
                          if any_files else None], sort_keys=True)
        if key not in cache:
            ref, rper = server_observe(dict(plan, files=fstate), [r])
            runs += 1
            if rper is None:
                return core.harness(ref['status'], runs=runs)
            cache[key] = (rper[0] if rper else None, ref['status'])
        else:
            probes['repeated_request'] = 1
        want, want_status = cache[key]
        last = i == len(per) - 1
        if want is None:
            return core.harness('reference run accepted no request')
        for what in ('response', 'subs', 'stderr', 'answered'):
            if got[what] != want[what]:
                detail = {'system': 'server', 'argv': plan['argv'],
                          'request_index': i, 'differs': what,
                          'carrier': reqs[i].get('carrier'),
                          'requests': [{'fields': [[k, v[:120]] for k, v in
                                                   q['fields']],
                                        'fault': q.get('fault'),
                                        'role': q.get('role')}
                                       for q in reqs[:i + 1]],
                          'in_history': _short_srv(got, what),
                          'alone': _short_srv(want, what)}
                return core.violation('C17/server-diverge:' + what, detail,
                                      digest, probes=probes, runs=runs,
                                      nontrivial=None, fired=hist['fired'])
        fault = (reqs[i].get('fault') or {}).get('kind')
        if not fault and got['answered']:
            # bounded liveness: a well-formed request is answered within its
            # own accept step
            if not (got['response'] or '')[:12] in ('HTTP/1.0 200', 'HTTP/1.1 200'):
                probes['wellformed_not_200'] = \
                    probes.get('wellformed_not_200', 0) + 1
        if not got['answered']:
            # the server ended inside this request (SystemExit of a fatal):
            # the rest of the history is dropped
            if hist['status'] != want_status:
                return core.violation(
                    'C17/server-diverge:exit-status',
                    {'system': 'server', 'request_index': i,
                     'in_history': hist['status'], 'alone': want_status,
                     'argv': plan['argv']}, digest, probes=probes, runs=runs,
                    nontrivial=None, fired=hist['fired'])
            probes['server_ended_by_request'] = 1
            break
    pairs = {}
    pol_at = {}
    for i, q in enumerate(reqs[:len(per)]):
        if q.get('role') == 'polluter':
            pol_at.setdefault(q['carrier'], i)
        elif q.get('role') == 'probe' and q['carrier'] in pol_at:
            d = i - pol_at[q['carrier']] - 1
            pairs['server|%s|d%d' % (q['carrier'], min(d, 3))] = 1
    probes.update({'pair:' + k: 1 for k in pairs})
    nt = digest if pairs or len(per) > 1 else None
    return core.ok(digest, probes=probes, runs=runs, nontrivial=nt,
                   fired=hist['fired'], pairs=sorted(pairs))


def _short_srv(c, what):
    v = c.get(what)
    if what == 'subs':
        return [{'language': s.get('language'), 'text': s.get('text', '')[:200],
                 'argv': s.get('argv'), 'fields': s.get('fields')} for s in v]
    if isinstance(v, str):
        return v[-600:]
    return v


# ---------------------------------------------------------------------

def evaluate(plan):
    if plan['system'] == 'lib':
        return evaluate_lib(plan)
    return evaluate_server(plan)


def gen_plan(rng, idx):
    if os.environ.get('VERIF_C17_MODE') == 'corpus':    # measurement only
        return gen_corpus_plan(rng, idx)
    if idx % 3 == 2:
        return gen_server_plan(rng, idx)
    if idx % 6 == 4:
        return gen_corpus_plan(rng, idx)
    return gen_lib_plan(rng, idx)


def carrier_liveness(seed):
    """Self-check of the catalogue: a carrier is live if its polluter changes
    its probe when both stand in ONE document (same options).  Dead carriers
    are reported, they do not fail the check."""
    from sim import runner as r
    live, dead = [], []
    seen = set()
    rng = core.run_rng(seed, PID, 'liveness')
    W = docgen.Words(rng)
    for _ in range(400):
        car = rng.choice(CARRIERS)(rng, W)
        if car['name'] in seen:
            continue
        seen.add(car['name'])
        o = {'lang': 'en', 'pack': '*'}
        o.update(car.get('probe_opts', {}))
        o2 = dict(o)
        o2.update(car.get('pol_opts', {}))
        ml = bool(car.get('probe_ml'))
        ops = [{'latex': car['probe'], 'opts': o, 'ml': ml},
               {'latex': car['pol'] + '\n\n' + car['probe'], 'opts': o2,
                'ml': ml, 'mod': car.get('pol_mod')}]
        if not ops[1]['mod']:
            del ops[1]['mod']
        res = []
        for op in ops:
            ob = r.execute({'kind': 'lib', 'ops': [op],
                            'files': car.get('files', {})})
            rec = (ob['extra'].get('lib') or [{}])[0]
            ret = rec.get('ret') or {}
            txt = ret.get('txt') or json.dumps(ret.get('ml'))
            res.append((rec.get('status'), txt))
        alone, together = res
        # live: the probe's own output is not simply a suffix of the joint one
        if together[0] != alone[0] or not (together[1] or '').endswith(
                (alone[1] or '').lstrip('\n') or '\0'):
            live.append(car['name'])
        else:
            dead.append(car['name'])
    return sorted(live), sorted(dead)


def run(seed, tier, budget_s):
    batch = core.Batch(PID, seed, tier, LEVEL)
    n = 1500 if tier == 'quick' else 80000
    step = 480
    i = 0
    pair_cov = {}
    arrival_orders = set()
    req_fault_mix = {}
    while i < n and batch.elapsed() < budget_s:
        plans = [gen_plan(core.run_rng(seed, PID, j), j)
                 for j in range(i, min(n, i + step))]
        _res = core.map_plans(MOD, plans, chunk=2)
        for p, r in zip(plans, _res):
            batch.add(p, r)
            for k in r.get('pairs', []):
                pair_cov[k] = pair_cov.get(k, 0) + 1
            if p['system'] == 'server':
                # the schedule of a server history = arrival order of the
                # clients' requests together with the fault placed on each
                arrival_orders.add(tuple(
                    (q['client'], (q.get('fault') or {}).get('kind'),
                     bool(q.get('dup_of'))) for q in p['requests']))
                for q in p['requests']:
                    kf = (q.get('fault') or {}).get('kind') or \
                        ('duplicate' if q.get('dup_of') else 'none')
                    req_fault_mix[kf] = req_fault_mix.get(kf, 0) + 1
            if len(batch.samples) < 4 and r.get('pairs'):
                if p['system'] == 'lib':
                    batch.samples.append({'system': 'lib', 'history': [
                        {'latex': o['latex'][:120], 'opts': o['opts'],
                         'ml': o['ml'], 'role': o.get('role')} for o in p['ops']]})
                else:
                    batch.samples.append({'system': 'server', 'argv': p['argv'],
                                          'requests': [
                        {'client': q['client'], 'fault': q.get('fault'),
                         'role': q.get('role'),
                         'fields': [[k, v[:80]] for k, v in q['fields']]}
                        for q in p['requests']]})
        if i == 0:
            core.cross_validate(MOD, batch, list(zip(plans, _res)),
                                12 if tier == 'quick' else 60)
        i += step
    live, dead = carrier_liveness(seed)
    # pair probes are reported as a table, not as hundreds of probe counters
    batch.probes = {k: v for k, v in batch.probes.items()
                    if not k.startswith('pair:')}
    carriers = sorted({k.split('|')[1] for k in pair_cov})
    rule = ('One case = one history: either 2-10 tex2txt() calls in one '
            'interpreter or 1-12 HTTP requests of 1-4 simulated editor '
            'clients to one --as-server process (merged arrival order; '
            'duplicated, re-ordered, truncated, header-less, field-less, '
            'undecodable requests).  Histories are pair-biased: a catalogue '
            'of state carriers supplies (polluter, probe) operations placed '
            'at distance 0-2 with equal or different options, among random '
            'documents and keystroke-state prefixes; one sixth of the '
            'histories instead pairs two documents that use the same macro or '
            'environment name, drawn from the 437 LaTeX inputs of the '
            'repository\'s own tests (carrier label corpus:<name>).  Every operation is '
            're-executed alone in a pristine process and compared exactly '
            '(text, position list, part labels/order, stderr, status; HTTP '
            'response bytes, submissions, diagnostics on stderr without the request log).  Non-trivial = the '
            'history contains a polluter before its probe (or >= 2 requests); '
            'distinct = distinct event-log digests of such histories.')
    assumptions = [
        'reference = forked pristine child of a zygote that imported only yalafi core modules (extension modules are imported on demand in each child, as in a fresh interpreter)',
        'the LT peer is available throughout a server history (availability is environment, not history)',
        'files read by documents are constant within a history',
    ]
    components = {
        'real': ['yalafi.tex2txt.tex2txt and everything below it (lazy imports of extension modules included)',
                 'yalafi.shell.shell + server.py + proofreader.py + http.server/socketserver (server histories)'],
        'stubbed': ['socket.socket / serve_forever (in-memory connections, simulator accept loop)',
                    'subprocess.run / urllib (reactive fake proofreader flagging every generated word)',
                    'builtins.open for relative paths', 'time'],
    }
    extra = {'distinct_arrival_schedules': len(arrival_orders),
             'requests_planned_by_fault_kind': dict(sorted(req_fault_mix.items())),
             'carrier_pairs_exercised': dict(sorted(pair_cov.items())),
             'carriers_exercised': carriers,
             'carriers_live_in_one_document': live,
             'carriers_dead_in_one_document': dead}
    return core.finish(__import__(MOD, fromlist=['x']), batch, rule,
                       assumptions, components, extra)


def shrink(plan):
    if plan['system'] == 'lib':
        ops = plan['ops']
        if len(ops) > 1:
            for i in range(len(ops)):
                c = copy.deepcopy(plan)
                del c['ops'][i]
                yield c
        for i, o in enumerate(ops):
            t = o['latex']
            if len(t) > 40:
                for part in (t[:len(t) // 2], t[len(t) // 2:]):
                    c = copy.deepcopy(plan)
                    c['ops'][i]['latex'] = part
                    yield c
            lines = t.split('\n')
            if 1 < len(lines) <= 12:
                for j in range(len(lines)):
                    c = copy.deepcopy(plan)
                    c['ops'][i]['latex'] = '\n'.join(lines[:j] + lines[j + 1:])
                    yield c
            for k in list(o['opts']):
                c = copy.deepcopy(plan)
                del c['ops'][i]['opts'][k]
                yield c
            if o.get('ml'):
                c = copy.deepcopy(plan)
                c['ops'][i]['ml'] = False
                yield c
    else:
        reqs = plan['requests']
        if len(reqs) > 1:
            for i in range(len(reqs)):
                c = copy.deepcopy(plan)
                del c['requests'][i]
                yield c
        for i, q in enumerate(reqs):
            if q.get('fault'):
                c = copy.deepcopy(plan)
                del c['requests'][i]['fault']
                yield c
            for j, f in enumerate(q['fields']):
                if f[0] not in ('text', 'language'):
                    c = copy.deepcopy(plan)
                    del c['requests'][i]['fields'][j]
                    yield c
                if f[0] == 'text' and len(f[1]) > 40:
                    for part in (f[1][:len(f[1]) // 2], f[1][len(f[1]) // 2:]):
                        c = copy.deepcopy(plan)
                        c['requests'][i]['fields'][j][1] = part
                        yield c
        a = plan['argv']
        for opt, nargs in (('--multi-language', 0), ('--lt-options', 1),
                           ('--packages', 1), ('--single-letters', 1),
                           ('--equation-punctuation', 1), ('--define', 1)):
            if opt in a:
                c = copy.deepcopy(plan)
                k = c['argv'].index(opt)
                del c['argv'][k:k + 1 + nargs]
                yield c
