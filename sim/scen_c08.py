"""C08, clause "an unreadable \\LTinput file": the filter prints a diagnostic
with the line/column of the macro, puts the complete error mark into the text
mapped to that position, loses no text behind it - and a readable file gives
neither mark nor diagnostic.

File-system fault injection (SimFS) on the \\LTinput read, through three entry
points (library call, `python -m yalafi`, the shell with a fake proofreader);
every plan is run twice: faulty and as its fault-free twin.
See DESIGN.md §4 C08.
"""

import copy
import json
import re

from sim import core, docgen, runner, shellscen

PID = 'C08'
LEVEL = 'exploration'
MOD = 'sim.scen_c08'
MARK = 'LATEXXXERROR'

RE_DIAG = re.compile(r'\*\*\* LaTeX error: line (\d+), column (\d+):\n\*\*\* ([^\n]*)')

PLACEMENTS = {
    'own_line': lambda m, a: ('%s\n' % m, []),
    'inline': lambda m, a: ('%s %s %s.\n' % (a[0], m, a[1]), a[:2]),
    'in_arg': lambda m, a: ('\\textbf{%s %s} %s.\n' % (m, a[0], a[1]), a[:2]),
    'in_unknown_arg': lambda m, a: ('\\zzq{%s%s} %s.\n' % (a[0], m, a[1]), a[:2]),
    'in_footnote': lambda m, a: ('%s\\footnote{%s %s.} %s.\n'
                                 % (a[0], m, a[1], a[2]), a[:3]),
    'after_comment': lambda m, a: ('%% a comment line\n%s\n%s.\n' % (m, a[0]), a[:1]),
    'before_comment': lambda m, a: ('%s%% trailing comment\n%s.\n' % (m, a[0]), a[:1]),
    'after_nonascii': lambda m, a: ('äöü жж “é” %s %s.\n' % (m, a[0]), a[:1]),
    'in_group': lambda m, a: ('{%s} %s.\n' % (m, a[0]), a[:1]),
    'in_item': lambda m, a: ('\\begin{itemize}\n\\item %s %s\n\\end{itemize}\n'
                             % (m, a[0]), a[:1]),
    'indented': lambda m, a: ('    %s\n\t%s.\n' % (m, a[0]), a[:1]),
    'in_section': lambda m, a: ('\\section{%s %s}\n' % (m, a[0]), a[:1]),
    'blank_lines_around': lambda m, a: ('\n\n%s\n\n%s.\n' % (m, a[0]), a[:1]),
    'spaced_arg': lambda m, a: ('%s %s.\n' % (m.replace('{', ' {'), a[0]), a[:1]),
}

FAULT_KINDS = ['ENOENT', 'ENOENT', 'EACCES', 'EISDIR', 'EIO', 'EIO_read',
               'undecodable', 'vanish']


def gen_plan(rng, idx):
    entry = rng.choice(['lib', 'lib', 'cli', 'shell'])
    ml = entry == 'lib' and rng.random() < 0.3
    lang = rng.choice(['en-GB', 'de-DE', 'ru-RU'])
    W = docgen.Words(rng)
    nosp = rng.random() < 0.15
    # the encoding option of the library call also governs the files read by
    # \LTinput: files in that encoding are readable
    ienc = 'latin-1' if entry == 'lib' and rng.random() < 0.15 else None
    kinds = [k for k in docgen.BASIC_KINDS
             if k not in ('usepackage',)]
    if nosp:
        # --no-specials / nosp deactivates \LTadd, \LTskip and the LT-SKIP
        # comments (not \LTinput): keep them out of the document
        kinds = [k for k in kinds if k not in ('ltadd', 'ltskip', 'skip_region')]
    frags = docgen.gen_document(rng, n_frags=rng.randrange(0, 12) or 0,
                                kinds=rng.sample(kinds, rng.randrange(3, 12)),
                                ml=False, lang=lang, W=W, end_newline=True) \
        if rng.random() < 0.85 else []
    nlt = rng.choice([1, 1, 1, 2, 3])
    ltfiles = {}
    vanish_file = None
    for i in range(nlt):
        name = rng.choice(['d', 'x%d' % i, 'defs%d.tex' % i, 'sub/m%d.tex' % i,
                           'gl%d.glsdefs' % i, 'ab%d' % i, 'dä f%d.tex' % i,
                           '../up%d' % i, 'Defs%d.TEX' % i])
        never = False
        if rng.random() < 0.08 and not any(
                v.get('never_readable') for v in ltfiles.values()):
            # a name that cannot denote a readable file at all: empty, blank,
            # or taken from a macro the filter does not know (expands to '')
            name = rng.choice(['', ' ', '\\jobname', '\\glsdefsfile '])
            never = True
        while name in ltfiles:
            name += 'x'
        kind = 'ENOENT' if never else rng.choice(FAULT_KINDS)
        if ienc and kind == 'undecodable':
            kind = 'EIO'            # every byte sequence is valid latin-1
        fault = {'kind': kind}
        if kind == 'EIO_read':
            fault['after'] = rng.randrange(0, 40)
        if kind == 'undecodable':
            fault['at'] = rng.randrange(0, 30)
            fault['hex'] = rng.choice(['ff', 'c3', 'e282', 'fe'])
        if kind == 'vanish':
            fault['after_opens'] = 1
        body = rng.choice([
            '\\newcommand{\\fromfile%s}{}\n' % 'abc'[i],
            '% only a comment\n',
            '',
            '\\newcommand{\\fromfile%s}[1]{#1}\n\\newcommand{\\other%s}{}\n'
            % ('abc'[i], 'abc'[i]),
            '\\newcommand{\\fromfile%s}{}\n' % 'abc'[i] * 6,
        ])
        ltfiles[name] = {'text': body, 'fault': fault}
        if never:
            ltfiles[name]['never_readable'] = True
        placement = rng.choice(list(PLACEMENTS))
        if kind == 'vanish':
            # first read succeeds, the second (later in the text) fails
            placement = rng.choice([p for p in PLACEMENTS if p != 'in_section'])
            a = W.words(3)
            s, ws = PLACEMENTS['own_line']('\\LTinput{%s}' % name, a)
            frags.insert(0, docgen.frag('ltinput_ok', s, ws, lt=[name],
                                        lt_ok=True))
        a = W.words(3)
        s, ws = PLACEMENTS[placement]('\\LTinput{%s}' % name, a)
        fr = docgen.frag('ltinput', s, ws, lt=[name], placement=placement)
        where = rng.choice(['first', 'last', 'mid', 'mid', 'mid'])
        if where == 'first':
            # keep an earlier successful read of a vanishing file in front
            pos = 1 if frags and frags[0].get('lt_ok') else 0
            frags.insert(pos, fr)
        elif where == 'last':
            frags.append(fr)
        else:
            lo = 1 if frags and frags[0].get('lt_ok') else 0
            frags.insert(rng.randrange(lo, len(frags) + 1), fr)
    if rng.random() < 0.3:
        # the line users are told to put into their preamble so that LaTeX
        # itself knows the macro; the filter must ignore this re-definition
        frags.insert(0, docgen.frag('ltinput_preamble', rng.choice([
            '\\newcommand{\\LTinput}[1]{}\n',
            '\\newcommand{\\LTinput}[1]{}  % only for LaTeX\n\n',
            '\\renewcommand{\\LTinput}[1]{}\n'])))
    nested = rng.random() < 0.08
    if nested:
        ltfiles['nest.tex'] = {'text': '\\LTinput{nobody.tex}\n'}
        frags.insert(rng.randrange(len(frags) + 1), docgen.frag(
            'ltinput_nested', '\\LTinput{nest.tex}\n', nested=True))
    if rng.random() < 0.15:
        # a readable file that itself makes the filter parse another text (a
        # further readable \LTinput, a package shipping LaTeX-level macros)
        # stands before everything else: whatever the parser keeps about
        # "the text being parsed" has gone through two levels by then
        inner = rng.choice(['\\LTinput{inner.tex}\n', '\\usepackage{xcolor}\n',
                            '\\usepackage{amsmath}\n\\LTinput{inner.tex}\n',
                            '\\LTinput{inner.tex}\n\\LTinput{inner.tex}\n'])
        ltfiles['outer.tex'] = {'text': inner + '\\newcommand{\\outerm}{}\n'}
        ltfiles['inner.tex'] = {'text': rng.choice([
            '\\newcommand{\\innerm}{}\n', '', '\\usepackage{babel}\n'])}
        frags.insert(0, docgen.frag('ltinput_ok', '\\LTinput{outer.tex}\n', [],
                                    lt=['outer.tex', 'inner.tex'], lt_ok=True,
                                    chain=True))
    if rng.random() < 0.35 and frags:
        # last line without newline: the mark may have to be split
        last = frags[-1]
        if last['k'] == 'ltinput' and last.get('placement') == 'own_line':
            last['s'] = last['s'].rstrip('\n')
        else:
            while last['s'].endswith('\n'):
                last['s'] = last['s'][:-1]
    plan = {'entry': entry, 'ml': ml, 'lang': lang, 'frags': frags, 'nosp': nosp,
            'stdin': entry == 'cli' and rng.random() < 0.4,
            'ienc': ienc,
            'ltfiles': ltfiles, 'nested': nested, '_index': idx,
            'pack': rng.choice(['*', '*', '', 'amsmath,babel'])}
    return plan


def concrete(plan, faulty):
    """The runner plan of one execution (faulty or fault-free twin)."""
    files = {}
    for n, spec in plan['ltfiles'].items():
        files[n] = {'text': spec['text']}
        if plan.get('ienc'):
            files[n]['enc'] = plan['ienc']
            if spec['text']:
                files[n]['text'] = '% Gr\xfc\xdfe aus der Datei\n' + spec['text']
        if (faulty or spec.get('never_readable')) and spec.get('fault'):
            files[n]['fault'] = spec['fault']
    tex = docgen.doc_text(plan['frags'])
    entry = plan['entry']
    if entry == 'lib':
        o = {'lang': plan['lang'], 'pack': plan['pack'], 'char': True}
        if plan.get('ienc'):
            o['ienc'] = plan['ienc']
        if plan.get('nosp'):
            o['nosp'] = True
        return {'kind': 'lib', 'files': files, 'ops': [{
            'latex': tex, 'ml': plan['ml'], 'opts': o}]}
    files['main.tex'] = {'text': tex}
    if entry == 'cli':
        cp = {'kind': 'filter_cli', 'files': files,
              'argv': (['--nosp'] if plan.get('nosp') else [])
              + ['--char', '--nums', 'nums.txt', '--lang', plan['lang'],
                 '--pack', plan['pack']]}
        if plan.get('stdin'):
            cp['stdin'] = tex           # python -m yalafi < main.tex
        else:
            cp['argv'].append('main.tex')
        return cp
    argv = (['--no-specials'] if plan.get('nosp') else []) + [
        '--lt-command', 'simlt', '--language', plan['lang'], '--output',
        'json', 'main.tex']
    if plan['pack'] != '*':
        argv[0:0] = ['--packages', plan['pack']]
    return {'kind': 'shell', 'files': files, 'argv': argv, 'names': ['main.tex'],
            'peer': {'targets': [MARK], 'nonascii': False}}


def observe(plan, faulty):
    """-> dict(status, parts=[(txt, pos)], stderr, reported, digest, fired)"""
    cp = concrete(plan, faulty)
    obs = runner.execute(cp)
    o = {'status': obs['status'], 'digest': obs['digest'],
         'fired': obs['fired'], 'stderr': obs['stderr'], 'parts': [],
         'reported': None, 'harness': runner.is_harness_error(obs)}
    if o['harness']:
        return o
    entry = plan['entry']
    if entry == 'lib':
        rec = obs['extra']['lib'][0]
        o['status'] = rec['status']
        ret = rec.get('ret') or {}
        if 'ml' in ret:
            o['parts'] = [(p[0], p[1]) for lang, ps in ret['ml'] for p in ps]
        elif 'txt' in ret:
            o['parts'] = [(ret['txt'], ret['pos'])]
    elif entry == 'cli':
        nums = obs.get('written', {}).get('nums.txt', '')
        pos = []
        for ln in nums.split('\n'):
            if ln:
                pos.append(int(ln.rstrip('+')))
        o['parts'] = [(obs['stdout'], pos)]
    else:
        subs = shellscen.submissions(obs)
        o['parts'] = [(s['text'], None) for s in subs]
        try:
            docs = shellscen.parse_json_report(obs['stdout'])
            o['reported'] = [(m['offset'], m['length'])
                             for d in docs for m in d.get('matches', [])]
        except (ValueError, KeyError, TypeError):
            o['reported'] = 'unparsable'
    return o


def evaluate(plan):
    bad = observe(plan, True)
    twin = observe(plan, False)
    if bad['harness'] or twin['harness']:
        return core.harness(bad['status'] + ' / ' + twin['status'])
    probes = {}
    fired = bad['fired']
    kw = {'fired': fired, 'runs': 2}
    tex = docgen.doc_text(plan['frags'])
    if plan['entry'] == 'shell':
        tex_seen = shellscen.shell_text(tex)
    else:
        tex_seen = tex
    detail = {'entry': plan['entry'], 'ml': plan['ml'],
              'tex': tex if len(tex) < 700 else tex[:700] + '...',
              'faults': {n: s.get('fault') for n, s in plan['ltfiles'].items()},
              'status': bad['status'], 'twin_status': twin['status']}
    digest = bad['digest'] + twin['digest'][:16]

    def viol(vclass, **extra):
        detail.update(extra)
        detail['stderr_tail'] = bad['stderr'][-500:]
        return core.violation('C08/' + vclass, detail, digest, probes=probes,
                              nontrivial=None, **kw)

    # ---- (e) no traceback, same exit status as the twin
    for lab, o in (('faulty', bad), ('twin', twin)):
        tb = shellscen.traceback_type(o['stderr'])
        if o['status'].startswith('exc:') or tb:
            return viol('traceback:%s:%s' % (lab, o['status'][4:] if
                                             o['status'].startswith('exc:') else tb))
    if bad['status'] != twin['status']:
        return viol('status-differs')
    if bad['status'] not in ('ok', 'exit:0'):
        return viol('status:' + bad['status'])

    # ---- expectations from the plan
    expect = []         # (offset of the backslash, file)
    off = 0
    for fr in plan['frags']:
        for name in fr.get('lt', []):
            if fr.get('lt_ok') or fr.get('nested'):
                continue
            i = fr['s'].find('\\LTinput')
            expect.append((off + i, name, fr.get('placement')))
        off += len(fr['s'])
    diags_bad = [(int(a), int(b), c) for a, b, c in RE_DIAG.findall(bad['stderr'])]
    diags_twin = [(int(a), int(b), c) for a, b, c in RE_DIAG.findall(twin['stderr'])]
    detail['diagnostics'] = diags_bad[:6]

    # ---- twin: no mark, no diagnostic (apart from the deliberately unreadable
    #      nested file, whose diagnostic refers to the included file)
    twin_txt = ''.join(p[0] for p in twin['parts'])
    never = any(sp.get('never_readable') for sp in plan['ltfiles'].values())
    if never:
        # this "file" is unreadable in the twin as well: the twin says nothing
        # about marks and diagnostics then
        probes['name_never_readable'] = 1
    elif not plan['nested']:
        if diags_twin:
            return viol('twin:diagnostic-on-readable-files', twin_diag=diags_twin[:3])
    else:
        probes['nested_include_error'] = 1
    if MARK in twin_txt and not never:
        return viol('twin:mark-on-readable-files')

    bad_txt = ''.join(p[0] for p in bad['parts'])
    for (p, name, placement) in expect:
        lc = shellscen.offset_to_lc(tex_seen, p)
        # (a) diagnostic at the backslash of the macro
        # the wording of the diagnostic is not part of the property: only its
        # presence at the line/column of the macro is judged
        hit = [d for d in diags_bad if (d[0], d[1]) == lc]
        if not hit:
            return viol('diagnostic-missing-or-misplaced', want_line_col=lc,
                        file=name, placement=placement)
        if not any(repr(name) in d[2] or name in d[2] for d in hit):
            probes['diagnostic_without_file_name'] = 1
        probes['placement_' + str(placement)] = 1
        if len(tex_seen) - p < len(MARK) + 2:
            probes['mark_split'] = 1
    # (b) complete mark, once per faulted read at least
    nmarks = bad_txt.count(MARK)
    if nmarks < len(expect):
        return viol('mark-missing-or-incomplete', marks=nmarks,
                    want=len(expect), plain_tail=bad_txt[-120:])
    # (c) first character of each mark is mapped to a diagnosed position, and
    #     every expected position carries a mark
    mark_positions = []
    for txt, pos in bad['parts']:
        if pos is None:
            continue
        j = txt.find(MARK)
        while j >= 0:
            if len(pos) != len(txt):
                return viol('map-length')
            mark_positions.append(abs(pos[j]) - 1)
            # the blank that belongs to the mark
            if j > 0 and txt[j - 1] == ' ' and abs(pos[j - 1]) - 1 != abs(pos[j]) - 1 \
                    and len(tex_seen) - (abs(pos[j - 1]) - 1) >= len(MARK) + 2:
                probes['leading_blank_elsewhere'] = 1
            j = txt.find(MARK, j + 1)
    if plan['entry'] != 'shell':
        for (p, name, placement) in expect:
            if p not in mark_positions:
                return viol('mark-position', want=p, got=mark_positions[:6],
                            file=name, placement=placement)
        # never a mark without a diagnostic
        dset = {(d[0], d[1]) for d in diags_bad}
        for mp in mark_positions:
            if shellscen.offset_to_lc(tex_seen, mp) not in dset:
                return viol('mark-without-diagnostic', at=mp)
    else:
        rep = bad['reported']
        if rep == 'unparsable' or rep is None:
            return viol('shell-report-unparsable')
        want = {p for (p, _, _) in expect}
        for (o_, l_) in rep:
            if o_ not in want:
                return viol('shell:mark-reported-elsewhere', got=o_,
                            want=sorted(want))
        if expect and not rep:
            return viol('shell:mark-not-reported')
    # (d) no text lost: every literal word of the document is still there
    lit = docgen.literal_words(plan['frags'])
    for w in lit:
        if w not in bad_txt:
            return viol('text-lost', word=w)
        if w not in twin_txt:
            # the catalogue guarantees this on the unchanged tree
            return viol('twin:text-lost', word=w)
    hid = docgen.hidden_words(plan['frags'])
    if plan.get('nosp'):
        probes['no_specials'] = 1
    for w in hid:
        if w in bad_txt:
            return viol('hidden-text-leaked', word=w)
    if any(k in fired for k in ('EIO_read',)):
        probes['fault_mid_read'] = 1
    if any(pl == 'in_footnote' for (_, _, pl) in expect):
        probes['fault_in_footnote'] = 1
    if len(diags_bad) > nmarks:
        probes['more_diagnostics_than_marks'] = 1
    probes['entry_' + plan['entry']] = 1
    if plan.get('ienc'):
        probes['ltinput_files_in_the_encoding_of_the_ienc_option'] = 1
    if any(fr.get('chain') for fr in plan['frags']):
        probes['readable_two_level_include_before_the_fault'] = 1
    if plan.get('stdin'):
        probes['cli_text_from_stdin'] = 1
    consumed = sum(v for k, v in fired.items())
    nt = digest if consumed else None
    return core.ok(digest, probes=probes, nontrivial=nt, **kw)


def run(seed, tier, budget_s):
    batch = core.Batch(PID, seed, tier, LEVEL)
    n = 4000 if tier == 'quick' else 250000
    step = 1000
    i = 0
    while i < n and batch.elapsed() < budget_s:
        plans = [gen_plan(core.run_rng(seed, PID, j), j)
                 for j in range(i, min(n, i + step))]
        _res = core.map_plans(MOD, plans, chunk=8)
        for p, r in zip(plans, _res):
            batch.add(p, r)
            if len(batch.samples) < 3 and r.get('nontrivial'):
                batch.samples.append({
                    'entry': p['entry'],
                    'tex_head': docgen.doc_text(p['frags'])[:300],
                    'faults': {n_: s.get('fault') for n_, s in p['ltfiles'].items()}})
        if i == 0:
            core.cross_validate(MOD, batch, list(zip(plans, _res)),
                                12 if tier == 'quick' else 60)
        i += step
    rule = ('One case = a seeded document with 1-3 \\LTinput{file} macros at '
            'seeded places (own line, inline, in arguments, footnote, section, '
            'item, after non-ASCII text, next to removed lines, first/last '
            'token, last line without newline) x one file-system fault per '
            'file (ENOENT, EACCES, EISDIR, EIO at open, EIO after k characters, '
            'undecodable bytes, vanishing between two reads) x entry point '
            '(library call, python -m yalafi with --nums, the shell with the '
            'fake proofreader flagging the mark); each case runs faulty and as '
            'fault-free twin.  Non-trivial = at least one fault was consumed at '
            'the file seam; distinct = distinct event-log digests of such '
            'pairs.')
    assumptions = [
        'only the "unreadable \\LTinput file" clause of C08 is decided; the syntactic problem kinds are not addressed',
        'counts of diagnostics and marks are not required to be equal (\\section expands its argument twice; nested includes print a diagnostic without mark)',
        'in the shell entry only the first mark of a submission is flagged by the fake proofreader',
    ]
    components = {
        'real': ['yalafi.tex2txt.tex2txt / read() closure', 'handlers.h_load_defs',
                 'utils.latex_error', 'parser', 'tex2txt.main()', 'the shell (json route)'],
        'stubbed': ['builtins.open for relative paths (fault-injecting in-memory file system)',
                    'subprocess.run (proofreader)'],
    }
    return core.finish(__import__(MOD, fromlist=['x']), batch, rule,
                       assumptions, components)


def shrink(plan):
    frs = plan['frags']
    if len(frs) > 1:
        half = len(frs) // 2
        for lo, hi in ((0, half), (half, len(frs))):
            c = copy.deepcopy(plan)
            c['frags'] = frs[lo:hi]
            yield _prune(c)
        for i in range(len(frs)):
            c = copy.deepcopy(plan)
            del c['frags'][i]
            yield _prune(c)
    if plan.get('stdin'):
        c = copy.deepcopy(plan)
        c['stdin'] = False
        yield c
    if plan['entry'] != 'lib':
        c = copy.deepcopy(plan)
        c['entry'] = 'lib'
        c['stdin'] = False
        yield c
    if plan['ml']:
        c = copy.deepcopy(plan)
        c['ml'] = False
        yield c
    if plan['pack'] != '*':
        c = copy.deepcopy(plan)
        c['pack'] = '*'
        yield c
    if plan.get('nosp'):
        c = copy.deepcopy(plan)
        c['nosp'] = False
        yield c


def _prune(plan):
    used = set()
    for fr in plan['frags']:
        used.update(fr.get('lt', []))
    plan['nested'] = any(fr.get('nested') for fr in plan['frags'])
    plan['ltfiles'] = {n: s for n, s in plan['ltfiles'].items()
                       if n in used or (n == 'nest.tex' and plan['nested'])}
    return plan
