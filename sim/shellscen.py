"""Shared pieces for scenarios that run the proofreading shell: base plan
generation, report parsers for every output route, location helpers."""

import html as htmllib
import html.parser
import json
import re
import xml.etree.ElementTree as ET

from sim import docgen

MODES = ['plain', 'json', 'xml', 'xml-b', 'html']


def shell_text(raw):
    """The LaTeX text as the shell sees it (run_proofreader appends a newline)."""
    return raw if raw.endswith('\n') else raw + '\n'


def line_starts(text):
    starts = [0]
    for i, c in enumerate(text):
        if c == '\n':
            starts.append(i + 1)
    return starts


def offset_to_lc(text, off):
    lin = text.count('\n', 0, off)
    nl = text.rfind('\n', 0, off) + 1
    return lin + 1, off - nl + 1


def lc_to_offset(text, lin, col):
    """None if (lin, col) does not denote a character of text."""
    starts = line_starts(text)
    if lin < 1 or lin > len(starts) or col < 1:
        return None
    off = starts[lin - 1] + col - 1
    end = starts[lin] if lin < len(starts) else len(text)
    if off >= end or off >= len(text):
        return None
    return off


# ---------------------------------------------------------------------
#   parsers: every route is normalised to a list of dicts per file
# ---------------------------------------------------------------------

RE_TEXT_HEAD = re.compile(r'^(\d+)\.\) Line (-?\d+), column (-?\d+), Rule ID: (.*)$')


def parse_text_report(out):
    """[{file, nr, lin, col, rule, message, ctx, marks}] in output order."""
    res = []
    lines = out.split('\n')
    i = 0
    cur_file = None
    while i < len(lines):
        ln = lines[i]
        m = re.match(r'^=== (.*) ===$', ln)
        if m and i + 1 < len(lines) and RE_TEXT_HEAD.match(lines[i + 1]):
            cur_file = m.group(1)
            h = RE_TEXT_HEAD.match(lines[i + 1])
            rec = {'file': cur_file, 'nr': int(h.group(1)),
                   'lin': int(h.group(2)), 'col': int(h.group(3)),
                   'rule': h.group(4)}
            j = i + 2
            if j < len(lines) and lines[j].startswith('Message: '):
                rec['message'] = lines[j][9:]
                j += 1
            if j < len(lines) and lines[j].startswith('Suggestion: '):
                rec['suggestion'] = lines[j][12:]
                j += 1
            if j + 1 < len(lines):
                rec['ctx'] = lines[j]
                rec['marks'] = lines[j + 1]
                j += 2
            res.append(rec)
            i = j
            continue
        i += 1
    return res


def parse_json_report(out):
    """List (one per file, in order) of match lists; raises ValueError."""
    dec = json.JSONDecoder()
    docs = []
    i = 0
    while i < len(out):
        if out[i].isspace():
            i += 1
            continue
        obj, j = dec.raw_decode(out, i)
        docs.append(obj)
        i = j
    return docs


def parse_xml_report(out):
    """Parses every <matches>…</matches> block with a real XML parser."""
    files = []
    for m in re.finditer(r'<matches>\n(.*?)</matches>\n', out, re.S):
        root = ET.fromstring('<matches>' + m.group(1) + '</matches>')
        files.append([dict(e.attrib) for e in root.findall('error')])
    return files


class Cell:
    """Content of one table cell: text segments and highlighted spans."""

    def __init__(self):
        self.segs = []          # ('t', text) | ('s', title, text, span id)

    def add_text(self, text, title=None, span_id=None):
        last = self.segs[-1] if self.segs else None
        if title is None:
            if last and last[0] == 't':
                self.segs[-1] = ('t', last[1] + text)
            else:
                self.segs.append(('t', text))
        elif last and last[0] == 's' and last[3] == span_id:
            self.segs[-1] = ('s', title, last[2] + text, span_id)
        else:
            self.segs.append(('s', title, text, span_id))


def cell_text(cell):
    return ''.join(sg[1] if sg[0] == 't' else sg[2] for sg in cell.segs)


def cell_spans(cell):
    """[(title, highlighted text, text of the cell before the span)]"""
    out = []
    before = ''
    for sg in cell.segs:
        if sg[0] == 't':
            before += sg[1]
        else:
            out.append((sg[1], sg[2], before))
            before += sg[2]
    return out


def _norm(text):
    # &ensp; stands for a blank, &nbsp; pads the number column; raw line
    # breaks of the page source are layout only (<br> is the line break)
    return text.replace('\u2002', ' ').replace('\n', '').replace('\r', '')


class _ReportParser(html.parser.HTMLParser):
    """Structure of the HTML report, independent of styling: parts introduced
    by <a id=..></a><h3>File ...</h3>, tables of rows (number cell, text
    cell), highlighted places as <span title=...>."""

    def __init__(self):
        super().__init__(convert_charrefs=True)
        self.parts = []
        self.cur = None             # current part
        self.mode = None            # 'rows' | 'overlaps'
        self.anchor = None
        self.in_h3 = False
        self.h3 = ''
        self.row = None
        self.cell = None
        self.span_title = None
        self.span_id = 0

    def handle_starttag(self, tag, attrs):
        a = dict(attrs)
        if tag == 'a' and 'id' in a:
            self.anchor = a['id']
        elif tag == 'h3':
            self.in_h3 = True
            self.h3 = ''
        elif tag == 'tr':
            self.row = []
        elif tag == 'td' and self.row is not None:
            self.cell = Cell()
        elif tag == 'span' and self.cell is not None and 'title' in a:
            self.span_title = a['title'].replace('\u2002', ' ')
            self.span_id += 1
        elif tag == 'br' and self.cell is not None:
            self.cell.add_text('\n', self.span_title, self.span_id)

    def handle_endtag(self, tag):
        if tag == 'h3':
            self.in_h3 = False
            t = _norm(self.h3)
            if 'overlapping message(s)' in t and 'found' not in t:
                self.mode = 'overlaps'
            elif t.startswith('File ') and self.anchor is not None:
                n = re.search(r'with (\d+) problem', t)
                self.cur = {'file': self.anchor, 'title': t,
                            'nproblems': int(n.group(1)) if n else None,
                            'rows': [], 'overlaps': []}
                self.parts.append(self.cur)
                self.mode = 'rows'
        elif tag == 'span':
            self.span_title = None
        elif tag == 'td' and self.cell is not None and self.row is not None:
            self.row.append(self.cell)
            self.cell = None
        elif tag == 'tr' and self.row is not None:
            if self.cur is not None and len(self.row) >= 2:
                num = cell_text(self.row[0]).replace('\xa0', '').strip()
                n = int(num) if num.isdigit() else None
                if self.mode == 'overlaps':
                    if n is not None:
                        self.cur['overlaps'].append((n, self.row[1]))
                else:
                    self.cur['rows'].append((n, self.row[1]))
            self.row = None

    def handle_data(self, data):
        if self.in_h3:
            self.h3 += data
        elif self.cell is not None:
            t = _norm(data)
            if t:
                self.cell.add_text(t, self.span_title, self.span_id)


def parse_html_report(out):
    """Per file part: {'file', 'title', 'nproblems',
    'rows': [(line number or None, Cell)], 'overlaps': [(line number, Cell)]}"""
    p = _ReportParser()
    p.feed(out)
    p.close()
    return p.parts


# ---------------------------------------------------------------------
#   base plans
# ---------------------------------------------------------------------

LANG_CODES = ['en-GB', 'de-DE', 'en-US', 'ru-RU', 'fr']


def gen_shell_base(rng, mode=None, ml=None, nfiles=None, max_frags=14,
                   transport='run', max_targets=6):
    """A fault-free shell scenario: files, argv, peer plan."""
    if mode is None:
        mode = rng.choice(MODES)
    if ml is None:
        ml = rng.random() < 0.5
    if nfiles is None:
        nfiles = rng.choice([1, 1, 1, 2, 3])
    lang = rng.choice(LANG_CODES)
    files = {}
    names = []
    W = docgen.Words(rng)
    targets = []
    for i in range(nfiles):
        name = rng.choice(['main', 'ch', 'part', 'sec']) + str(i) + '.tex'
        frags = docgen.gen_document(rng, n_frags=rng.randrange(1, max_frags),
                                    ml=ml, lang=lang, W=W, ensure_foreign=True)
        files[name] = {'frags': frags}
        names.append(name)
        lit = docgen.literal_words(frags)
        if lit:
            k = rng.randrange(1, min(max_targets, len(lit)) + 1)
            targets += rng.sample(lit, k)
    rng.shuffle(targets)
    argv = ['--lt-command', 'simlt', '--language', lang, '--output', mode]
    if ml:
        argv.append('--multi-language')
    if rng.random() < 0.3:
        argv += ['--context', str(rng.choice([0, 1, 2, 5, -1]))]
    argv += names
    peer = {'targets': targets,
            'dup': [w for w in targets if rng.random() < 0.1],
            'nonascii': rng.random() < 0.8,
            'ensure_ascii': rng.random() < 0.3,
            'subid': rng.random() < 0.7,
            'urls': rng.random() < 0.7}
    return {'kind': 'shell', 'argv': argv, 'files': files, 'peer': peer,
            'mode': mode, 'ml': ml, 'lang': lang, 'names': names}


def submissions(obs):
    return [e[2] for e in obs['events'] if e[1] == 'submit']


def traceback_type(stderr):
    """Exception type named on the last line of the last traceback, or None."""
    if 'Traceback (most recent call last)' not in stderr:
        return None
    tail = stderr[stderr.rfind('Traceback (most recent call last)'):]
    typ = 'unknown'
    for ln in tail.split('\n')[1:]:
        m = re.match(r'^([A-Za-z_][\w.]*)(:|$)', ln)
        if m and not ln.startswith(' '):
            typ = m.group(1)
    return typ


# ---------------------------------------------------------------------
#   "every reported location lies inside the LaTeX file", route by route
# ---------------------------------------------------------------------

def check_locations_in_file(mode, stdout, texts, names, complete):
    """texts: {name: text as the shell sees it}.  complete: the run ended with
    status 0, so the output must be a whole, well-formed report.
    Returns a list of problem strings (empty = all locations in file)."""
    probs = []
    if mode == 'plain':
        for rec in parse_text_report(stdout):
            t = texts.get(rec['file'])
            if t is None:
                probs.append('report for unknown file %r' % rec['file'])
                continue
            if lc_to_offset(t, rec['lin'], rec['col']) is None:
                probs.append('plain: line %d column %d is outside %s'
                             % (rec['lin'], rec['col'], rec['file']))
    elif mode == 'json':
        try:
            docs = parse_json_report(stdout)
        except ValueError:
            if complete:
                probs.append('json: output is not a sequence of JSON documents')
            docs = []
        if complete and len(docs) != len(names):
            probs.append('json: %d documents for %d files' % (len(docs),
                                                              len(names)))
        for name, doc in zip(names, docs):
            t = texts[name]
            ms = doc.get('matches') if isinstance(doc, dict) else None
            if not isinstance(ms, list):
                probs.append('json: no match list')
                continue
            for m in ms:
                o, l = m.get('offset'), m.get('length')
                if not (isinstance(o, int) and isinstance(l, int)):
                    probs.append('json: offset/length not integers')
                    continue
                if not (0 <= o < len(t)):
                    probs.append('json: offset %d outside %s (len %d)'
                                 % (o, name, len(t)))
                elif not (0 <= o + l <= len(t)):
                    probs.append('json: offset+length %d outside %s (len %d)'
                                 % (o + l, name, len(t)))
                pr = m.get('priv')
                if isinstance(pr, dict) and 0 <= o < len(t):
                    starts = line_starts(t)
                    nlines = len(starts)
                    for ky, kx in (('fromy', 'fromx'), ('toy', 'tox')):
                        y, x = pr.get(ky), pr.get(kx)
                        if not (isinstance(y, int) and isinstance(x, int)
                                and 0 <= y < nlines):
                            probs.append('json: priv.%s=%r outside file'
                                         % (ky, y))
                            continue
                        end = starts[y + 1] if y + 1 < nlines else len(t)
                        if not (0 <= x <= end - starts[y]):
                            probs.append('json: priv.%s=%r outside line %d'
                                         % (kx, x, y))
    elif mode in ('xml', 'xml-b'):
        try:
            files = parse_xml_report(stdout)
        except ET.ParseError:
            files = []
            probs.append('xml: output is not well-formed')
        if complete and len(files) != len(names):
            probs.append('xml: %d <matches> blocks for %d files'
                         % (len(files), len(names)))
        for name, errs in zip(names, files):
            t = texts[name]
            lines = t.split('\n')
            for a in errs:
                try:
                    fy, fx = int(a['fromy']), int(a['fromx'])
                    ty, tx = int(a['toy']), int(a['tox'])
                except (KeyError, ValueError):
                    probs.append('xml: bad coordinates %r' % (a,))
                    continue
                for y, x, lab in ((fy, fx, 'from'), (ty, tx, 'to')):
                    if not 0 <= y < len(lines):
                        probs.append('%s: %sy=%d outside %s' % (mode, lab, y,
                                                                 name))
                        continue
                    width = (len(lines[y].encode('utf-8')) if mode == 'xml-b'
                             else len(lines[y])) + 1
                    if not 0 <= x <= width:
                        probs.append('%s: %sx=%d outside line %d of %s'
                                     % (mode, lab, x, y, name))
    elif mode == 'html':
        if complete and not (stdout.startswith('<html>')
                             and stdout.rstrip().endswith('</html>')):
            probs.append('html: incomplete page')
        parts = parse_html_report(stdout)
        if complete and [p['file'] for p in parts] != list(names):
            probs.append('html: parts %r for files %r'
                         % ([p['file'] for p in parts], names))
        for part in parts:
            t = texts.get(part['file'])
            if t is None:
                probs.append('html: part for unknown file %r' % part['file'])
                continue
            lines = t.split('\n')
            nlines = len(lines) - 1 if t.endswith('\n') else len(lines)
            for n, cell in part['rows']:
                if n is None:
                    continue
                if not 1 <= n <= max(nlines, 1):
                    probs.append('html: row number %d outside %s'
                                 % (n, part['file']))
                    continue
                src = lines[n - 1].replace('\t', ' ' * 8)
                shown = cell_text(cell)
                if shown != src:
                    probs.append('html: row %d of %s does not show the source '
                                 'line' % (n, part['file']))
                for title, hl, _ in cell_spans(cell):
                    if hl.replace(' ' * 8, '\t') not in lines[n - 1] \
                            and hl not in src:
                        probs.append('html: highlight %r not in line %d'
                                     % (hl[:30], n))
                    m = re.search(r'\nLine (\d+)\+?: >>>', title)
                    # a match spanning several lines repeats its span (and
                    # the title naming its first line) in the following rows
                    if m and not 1 <= int(m.group(1)) <= n:
                        probs.append('html: span titled line %s sits in row %d'
                                     % (m.group(1), n))
            for n, cell in part['overlaps']:
                if not 1 <= n <= max(nlines, 1):
                    probs.append('html: overlap row number %d outside %s'
                                 % (n, part['file']))
                for title, hl, _ in cell_spans(cell):
                    if hl and hl not in t.replace('\t', ' ' * 8) \
                            and hl not in t:
                        probs.append('html: overlap highlight %r not in file'
                                     % hl[:30])
    return probs
