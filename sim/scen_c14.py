"""C14 - a proofreader match is reported at the flagged word in the LaTeX file.

The simulator plays every party except the shell: files, the proofreader
(subprocess or HTTP with a boot delay under the simulated clock), and the
editor clients of --as-server.  Oracles come from construction (unique words,
source.find) plus an independent run of the filter in a pristine process for
the expected submission history.  See DESIGN.md §4 C14.
"""

import copy
import json
import re

from sim import core, docgen, runner, shellscen, world

PID = 'C14'
LEVEL = 'exploration'
MOD = 'sim.scen_c14'

ROUTES = ['plain', 'json', 'xml', 'xml-b', 'html', 'server']
RULES = ['UPPERCASE_SENTENCE_START', 'COMMA_PARENTHESIS_WHITESPACE',
         'EN_QUOTES', 'MORFOLOGIK_RULE_EN_GB', 'DE_CASE']
CATS = ['PUNCTUATION', 'TYPOGRAPHY', 'CASING', 'STYLE']

RE_MSG_WORD = re.compile(r'found: [“"](.*?)[”"] \[([0-9a-f]{8})\]', re.S)


# ---------------------------------------------------------------------
#   generation
# ---------------------------------------------------------------------

# plain-text characters that stand for a control symbol of the source
SYMBOL_TARGETS = {'%': '\\%', '#': '\\#'}


def _opt_list(rng, pool):
    return ','.join(rng.sample(pool, rng.randrange(1, 3)))


def gen_plan(rng, idx):
    route = rng.choice(ROUTES + ['plain', 'server'])
    transport = rng.choice(['run', 'run', 'run', 'my', 'my', 'lt', 'textgears'])
    ml = rng.random() < 0.6
    lang = rng.choice(shellscen.LANG_CODES)
    plain_input = route != 'server' and rng.random() < 0.07
    enc = 'utf-8'
    vows = docgen.VOWS_ALL
    if route != 'server' and rng.random() < 0.15:
        enc = 'latin-1'
        vows = 'aeiouäøï'
    W = docgen.Words(rng, nonascii=rng.choice([0.0, 0.3, 0.7]), vows_all=vows)
    ndocs = rng.choice([1, 1, 2, 3])
    docs = []
    for i in range(ndocs):
        kinds = None
        if plain_input:
            kinds = ['plain', 'longline', 'indent', 'blank']
        frags = docgen.gen_document(
            rng, n_frags=rng.randrange(1, 16), kinds=kinds,
            ml=ml and not plain_input, lang=lang, W=W,
            ensure_foreign=rng.random() < 0.8)
        if enc == 'utf-8' and rng.random() < 0.06:
            # a file saved as "UTF-8 with BOM": the mark is a character of
            # the text like any other, positions count it
            frags.insert(0, docgen.frag('bom', '\ufeff'))
        docs.append(frags)
    argv = ['--lt-command', 'simlt', '--language', lang]
    if rng.random() < 0.3:
        argv += ['--lt-directory', '/opt/LT']
    if ml:
        argv.append('--multi-language')
    files = {}
    opts = {'lang': lang, 'ml': ml and not plain_input, 'ml_flag': ml,
            'plain_input': plain_input, 'enc': enc,
            'ml_rule_thresh': 2, 'ml_cont_thresh': 2, 'disable':
            'WHITESPACE_RULE', 'enable': '', 'discat': '', 'encat': '',
            'ml_disable': '', 'ml_discat': '', 'lt_options': [],
            'lt_dir': '/opt/LT' if '--lt-directory' in argv else '.',
            'repl': None, 'defs': None, 'judge_rules': True}
    if enc != 'utf-8':
        argv += ['--encoding', enc]
    if plain_input:
        argv.append('--plain-input')
    # rule options
    if rng.random() < 0.4:
        opts['disable'] = _opt_list(rng, RULES) if rng.random() < 0.8 else ''
        argv += ['--disable', opts['disable']]
    if rng.random() < 0.25:
        opts['enable'] = _opt_list(rng, RULES)
        argv += ['--enable', opts['enable']]
    if rng.random() < 0.25:
        opts['discat'] = _opt_list(rng, CATS)
        argv += ['--disablecategories', opts['discat']]
    if rng.random() < 0.2:
        opts['encat'] = _opt_list(rng, CATS)
        argv += ['--enablecategories', opts['encat']]
    if ml:
        if rng.random() < 0.6:
            opts['ml_disable'] = _opt_list(rng, RULES)
            argv += ['--ml-disable', opts['ml_disable']]
        if rng.random() < 0.4:
            opts['ml_discat'] = _opt_list(rng, CATS)
            argv += ['--ml-disablecategories', opts['ml_discat']]
        if rng.random() < 0.6:
            opts['ml_rule_thresh'] = rng.choice([0, 1, 2, 3, 5, 8])
            argv += ['--ml-rule-threshold', str(opts['ml_rule_thresh'])]
        if rng.random() < 0.5:
            opts['ml_cont_thresh'] = rng.choice([0, 1, 2, 3, 4])
            argv += ['--ml-continue-threshold', str(opts['ml_cont_thresh'])]
    if rng.random() < 0.25:
        lo = rng.choice([['--languagemodel', '/ngrams'], ['--level', 'PICKY'],
                         ['--languagemodel', '/ng', '--level', 'PICKY'],
                         ['--disable', 'X_RULE'], ['-eo'],
                         ['--enable', 'LTO_RULE'],
                         ['--enabledonly', '--enable', 'A_RULE,B_RULE'],
                         ['--disablecategories', 'LTOCAT'],
                         ['--disable', 'X_RULE', '--languagemodel', '/ng']])
        opts['lt_options'] = lo
        argv += ['--lt-options', '~' + ' '.join(lo)]
        if any(o.startswith('-') and o not in ('--languagemodel', '--level')
               for o in lo):
            opts['judge_rules'] = False     # conflicting --lt-options
    if not plain_input and rng.random() < 0.3:
        # phrase replacements that change lengths before flagged words
        lines = []
        lit = [w for d in docs for f in d if f['k'] in ('plain', 'longline')
               for w in f['w']]
        for _ in range(rng.randrange(1, 4)):
            if not lit:
                break
            w = rng.choice(lit)
            lines.append('%s & %s\n' % (w, rng.choice(
                ['a', 'lorem ipsum dolor sit amet', 'xy', 'Ersatz text'])))
        lines.append('# comment line\n')
        files['repl.txt'] = {'text': ''.join(lines), 'enc': enc}
        argv += ['--replace', 'repl.txt']
        opts['repl'] = 'repl.txt'
    if not plain_input and rng.random() < 0.2:
        w = W.word(ascii_only=True)
        files['defs.tex'] = {'text': '\\newcommand{\\dfmac}[1]{#1}\n'
                                     '\\newcommand{\\dfgen}{%s}\n' % w,
                             'enc': enc}
        argv += ['--define', 'defs.tex']
        opts['defs'] = 'defs.tex'
        a = W.words(2)
        docs[0].insert(rng.randrange(len(docs[0]) + 1), docgen.frag(
            'define_use', '\\dfmac{%s} \\dfgen{} %s.\n' % (a[0], a[1]), a, g=[w]))
    opts.update({'seqs': False, 'dcls': '', 'pack': '*', 'extr': None})
    if not plain_input:
        if rng.random() < 0.15:
            opts['seqs'] = True
            argv.append('--simple-equations')
        if rng.random() < 0.12:
            opts['dcls'] = rng.choice(['article', 'scrartcl', 'book', 'scrbook'])
            argv += ['--documentclass', opts['dcls']]
        if rng.random() < 0.12:
            opts['pack'] = rng.choice([
                'amsmath,amsthm,babel,hyperref,xcolor,graphicx',
                '*,cleveref', 'babel,amsthm,amsmath,xcolor,hyperref,biblatex'])
            argv += ['--packages', opts['pack']]
        if rng.random() < 0.08:
            opts['extr'] = rng.choice(['footnote', 'caption,footnote',
                                       'section,textbf', 'emph'])
            argv += ['--extract', opts['extr']]
    if rng.random() < 0.12:
        argv += ['--equation-punctuation', rng.choice(['all', 'disp', 'inline'])]
    if rng.random() < 0.1:
        argv += ['--single-letters', 'A|a|I||']
    context = None
    if route == 'html' and rng.random() < 0.6:
        context = rng.choice([0, 1, 2, 5, -1])
        argv += ['--context', str(context)]
    if route == 'html' and rng.random() < 0.3:
        argv.append('--link')
    # transport
    http = {}
    if transport == 'my':
        argv += ['--server', 'my']
        http = {'initially_up': rng.random() < 0.35,
                'boot_delay': round(rng.choice([0.0, 0.3, 1.2, 2.6, 4.9, 7.4,
                                                9.4, 9.9, 10.6, 30.0]), 2)}
        if rng.random() < 0.2:
            argv += ['--lt-server-options', '~--allow-origin *']
        if rng.random() < 0.3:
            # transient failures of single requests while the server is up
            # (the shell repeats a failed request once)
            http['fail_attempts'] = sorted(rng.sample(range(0, 12),
                                                      rng.randrange(1, 4)))
            http['fail_kind'] = rng.choice(['reset', 'reset', '503'])
    elif transport == 'lt':
        argv += ['--server', 'lt']
        http = {'remote_down': rng.random() < 0.05}
    elif transport == 'textgears':
        argv += ['--textgears', 'DEMO_KEY']
        http = {'remote_down': rng.random() < 0.05}
    # targets
    lit = [w for d in docs for w in docgen.literal_words(d)]
    targets = rng.sample(lit, min(len(lit), rng.randrange(1, 13))) if lit else []
    if not plain_input and rng.random() < 0.25:
        # the text ends directly with a macro that generates a word
        d = rng.choice(docs)
        while d and d[-1]['s'].endswith('\n') and not d[-1]['w'] and \
                not d[-1].get('foreign'):
            d.pop()             # no blank fragment behind it
        d.append(docgen.f_gen_macro_end(rng, W, {'lang': lang}))
    gen = [w for d in docs for w in docgen.generated_words(d)]
    if gen and rng.random() < 0.5:
        # words of generated text are flagged too: their place is not judged
        # (C04), but the reports must agree between routes and stay ordered
        targets += rng.sample(gen, min(len(gen), rng.randrange(1, 4)))
        rng.shuffle(targets)
    phrases = []
    for d in docs:
        for f in d:
            for ph in f.get('phrases', []):
                if rng.random() < 0.6:
                    phrases.append(ph)
                    # nested: a word inside the span is flagged as well
                    for w in f['w']:
                        if w not in targets and rng.random() < 0.4:
                            targets.append(w)
    if not plain_input and rng.random() < 0.4 and sum(
            docgen.doc_text(d).count('\\%') for d in docs) == 1:
        # a character that stands for a control symbol of the source (the '%'
        # of '\%'): the match maps onto a backslash that starts no macro name
        targets.append(rng.choice(['%', '#']))
    eol = []
    if route != 'html' and transport != 'textgears':
        for d in docs:
            for f in d:
                if f['k'] == 'twolines' and rng.random() < 0.5:
                    # the last word of the first line, line break included
                    eol.append(f['w'][2])
    peer = {'targets': targets, 'phrases': phrases, 'eol': eol,
            'dup': [w for w in targets if rng.random() < 0.08],
            'nonascii': rng.random() < 0.8,
            'ensure_ascii': rng.random() < 0.3,
            'subid': rng.random() < 0.6, 'urls': rng.random() < 0.6,
            'http': http}
    # configurations: some options come from the config file .yalafi.shell
    # (config + argv are parsed together, later values win); with --no-config
    # the file must be ignored
    cfg_mode = rng.choice(['none', 'none', 'split', 'split', 'overridden',
                           'no_config'])
    if cfg_mode != 'none':
        groups = []
        for a in argv:
            if a.startswith('--') or not groups:
                groups.append([a])
            else:
                groups[-1].append(a)
        lines = []
        if cfg_mode == 'split':
            keep = []
            for g in groups:
                # an empty option value cannot be written in the config file
                if rng.random() < 0.5 and all(x.strip() for x in g):
                    lines.append(' '.join(g))
                else:
                    keep.append(g)
            argv = [a for g in keep for a in g]
        elif cfg_mode == 'overridden':
            # the config names other values; the command line wins
            if '--language' in argv:
                lines.append('--language zz-ZZ')
            if '--disable' in argv:
                lines.append('--disable CONFIG_RULE')
            if '--ml-rule-threshold' in argv:
                lines.append('--ml-rule-threshold 77')
            if '--context' in argv:
                lines.append('--context 9')
            lines.append('  --lt-command   conflt  ')
        else:
            lines += ['--language zz-ZZ', '--disable CONFIG_RULE',
                      '--multi-language', '--plain-input']
            argv.append('--no-config')
        files['.yalafi.shell'] = {'text': '\n'.join(lines) + '\n'}
    opts['cfg_mode'] = cfg_mode
    plan = {'kind': 'shell', 'route': route, 'transport': transport,
            'peer': peer, 'opts': opts, '_index': idx}
    if route == 'server':
        plan['argv'] = ['--as-server', '8082'] + argv
        reqs = []
        for i, d in enumerate(docs):
            fields = [['language', lang]]
            over = {}
            if rng.random() < 0.4:
                over['language'] = rng.choice(shellscen.LANG_CODES)
                fields[0][1] = over['language']
            if rng.random() < 0.4:
                over['disable'] = _opt_list(rng, RULES)
                fields.append(['disabledRules', over['disable']])
            if rng.random() < 0.2:
                over['enable'] = _opt_list(rng, RULES)
                fields.append(['enabledRules', over['enable']])
            if rng.random() < 0.2:
                over['discat'] = _opt_list(rng, CATS)
                fields.append(['disabledCategories', over['discat']])
            if rng.random() < 0.15:
                over['encat'] = _opt_list(rng, CATS)
                fields.append(['enabledCategories', over['encat']])
            if not docgen.doc_text(d).strip():
                # an empty 'text' field would be dropped by the form decoding
                w_ = W.words(2)
                d.append(docgen.frag('plain', ' '.join(w_) + '.', w_))
            reqs.append({'client': i, 'fields': fields, 'doc': {'frags': d},
                         'text_pos': rng.randrange(len(fields) + 1),
                         'over': over, 'crlf': rng.random() < 0.15})
        plan['requests'] = reqs
        plan['files'] = files
        plan['names'] = []
    else:
        names = []
        for i, d in enumerate(docs):
            name = rng.choice(['main', 'ch', 'sec', 'kapitel']) + str(i) + '.tex'
            files[name] = {'frags': d, 'enc': enc, 'crlf': rng.random() < 0.15}
            names.append(name)
        given = list(names)
        if len(names) > 1 and not plain_input and rng.random() < 0.12:
            # inclusion tracking: only the first file is named, the others are
            # reached through a chain of \input (discovery order = this order)
            argv.append('--include')
            for a_, b_ in zip(names, names[1:]):
                files[a_]['frags'].insert(0, docgen.frag(
                    'edge', '\\input{%s}\n' % b_[:-4]))
            given = [names[0]]
            opts['include'] = True
        plan['argv'] = argv + ['--output', route] + given
        plan['files'] = files
        plan['names'] = names
    return plan


# ---------------------------------------------------------------------
#   oracle
# ---------------------------------------------------------------------

def units(plan):
    """(label, raw text, effective options) per proofread unit, in order."""
    out = []
    o = plan['opts']
    if plan['route'] == 'server':
        for i, r in enumerate(plan['requests']):
            eff = dict(o)
            ov = r.get('over', {})
            for k in ('disable', 'enable', 'discat', 'encat'):
                # HTML request fields overwrite command-line option values;
                # what holds for an absent field is not stated -> None = not
                # judged
                eff[k] = ov.get(k)
            eff['lang'] = ov.get('language', o['lang'])
            eff['over'] = ov
            text = docgen.file_text(r['doc'])
            if r.get('crlf'):
                text = text.replace('\n', '\r\n')
            out.append(('request-%d' % i, text, eff))
    else:
        for n in plan['names']:
            out.append((n, shellscen.shell_text(
                docgen.file_text(plan['files'][n])), dict(o)))
    return out


def reference_parts(plan, us):
    """Parts of every unit from an independent filter run in a pristine
    process.  Returns list (per unit) of [(lang, text)], or None + error."""
    o = plan['opts']
    if o['plain_input']:
        return [[(eff['lang'], tex)] for (_, tex, eff) in us], None
    repl = None
    if o['repl']:
        repl = docgen.file_text(plan['files'][o['repl']]).splitlines(True)
    defs = docgen.file_text(plan['files'][o['defs']]) if o['defs'] else None
    ops = []
    for (_, tex, eff) in us:
        op = {'latex': tex,
              'opts': {'char': True, 'repl': repl, 'defs': defs,
                       'lang': eff['lang'], 'pack': o.get('pack', '*'),
                       'dcls': o.get('dcls', ''), 'seqs': o.get('seqs', False),
                       'extr': o.get('extr')},
              'ml': bool(o['ml'])}
        if o['ml']:
            op['mod'] = {'ml_continue_thresh': o['ml_cont_thresh']}
        ops.append(op)
    # every unit in its own pristine process (C17 is not assumed here)
    res = []
    for op in ops:
        obs = runner.execute({'kind': 'lib', 'ops': [op], 'files': {}})
        if runner.is_harness_error(obs):
            return None, obs['status']
        rec = obs['extra']['lib'][0]
        if rec['status'] != 'ok':
            return None, 'reference filter run: ' + rec['status']
        ret = rec['ret']
        if 'ml' in ret:
            res.append([(lang, p[0]) for lang, parts in ret['ml']
                        for p in parts])
        else:
            res.append([(op['opts']['lang'], ret['txt'])])
    return res, None


def expected_rule_fields(eff, lang, text, main_lang):
    """(disable, discat) expected for one part, or None if not judged."""
    short = len(text.split()) <= eff['ml_rule_thresh']
    foreign = lang != main_lang
    dis, cat = eff['disable'], eff['discat']
    if not eff['ml_flag'] or not short:
        return dis, cat, 'base'
    if not foreign:
        return None, None, 'short_main_part'
    if dis is not None and eff['ml_disable']:
        dis = (dis + ',' if dis else '') + eff['ml_disable']
    if cat is not None and eff['ml_discat']:
        cat = (cat + ',' if cat else '') + eff['ml_discat']
    return dis, cat, 'ml_addition'


def norm_submission(sub, ntail=0):
    """Normalises both transports to (language, disable, enable, discat,
    encat, rest)."""
    if sub['transport'] == 'run':
        argv = list(sub['argv'])
        d = {'--language': None, '--disable': '', '--enable': '',
             '--disablecategories': '', '--enablecategories': ''}
        rest = []
        # fixed prefix: <cmd> --json --encoding utf-8
        if argv[1:4] != ['--json', '--encoding', 'utf-8']:
            rest.append('BADPREFIX:' + ' '.join(argv[1:4]))
        body = argv[4:]
        if not body or body[-1] != '-':
            rest.append('NOSTDIN')
        else:
            body = body[:-1]
        # the last ntail tokens are the (expected) --lt-options; before them
        # the shell's own options, in a fixed order, each at most once
        cut = max(0, len(body) - ntail)
        head, tail = body[:cut], body[cut:]
        i = 0
        for name in ['--language', '--disable', '--enable',
                     '--disablecategories', '--enablecategories']:
            if i + 1 < len(head) and head[i] == name:
                d[name] = head[i + 1]
                i += 2
        if i < len(head):
            rest.append('UNPARSED:' + ' '.join(head[i:]))
        return (d['--language'], d['--disable'], d['--enable'],
                d['--disablecategories'], d['--enablecategories'],
                rest + tail)
    if sub['transport'] == 'textgears':
        return (None, None, None, None, None, [])
    f = sub['fields']
    rest = sorted([k, f[k]] for k in f if k not in (
        'language', 'disabledRules', 'enabledRules', 'disabledCategories',
        'enabledCategories', 'url'))
    return (f.get('language'), f.get('disabledRules', ''),
            f.get('enabledRules', ''), f.get('disabledCategories', ''),
            f.get('enabledCategories', ''), rest)


def word_of(message):
    m = RE_MSG_WORD.search(message or '')
    return m.group(1) if m else None


def evaluate(plan):
    obs = runner.execute(plan)
    runs = 1
    if runner.is_harness_error(obs):
        return core.harness(obs['status'] + ' argv=' + json.dumps(plan['argv']))
    probes = {}
    kw = {'fired': obs['fired'], 'sim_s': obs.get('slept', 0.0)}
    status = obs['status']
    route = plan['route']
    o = plan['opts']
    detail = {'route': route, 'transport': plan['transport'],
              'argv': plan['argv'], 'status': status}

    def viol(vclass, **extra):
        detail.update(extra)
        detail['stderr_tail'] = obs['stderr'][-500:]
        return core.violation('C14/' + vclass, detail, obs['digest'],
                              probes=probes, runs=runs, nontrivial=None, **kw)

    tb = shellscen.traceback_type(obs['stderr'])
    if status.startswith('exc:') or tb:
        return viol('traceback:' + (status[4:] if status.startswith('exc:')
                                    else tb))
    http = plan['peer'].get('http', {})
    if status == 'exit:1':
        # how long the shell waits for its LT server is not part of C14: any
        # run that ends with the shell's own "error starting server" while the
        # simulated server was still booting counts as "no answer"
        no_answer = (
            (plan['transport'] == 'my' and not http.get('initially_up')
             and http.get('boot_delay', 0) > 0
             and 'error starting server' in obs['stderr'])
            or (plan['transport'] in ('lt', 'textgears')
                and http.get('remote_down'))
            # a request was lost and the shell gave up with its diagnostic: no
            # answer was obtained, nothing to judge (how often the shell
            # retries is not part of C14)
            or (any(k.startswith('http_transient') for k in obs['fired'])
                and 'error connecting' in obs['stderr']))
        if no_answer and '*** yalafi.shell: ' in obs['stderr']:
            probes['no_answer'] = 1
            probes['lt_server_boot_wait_s'] = int(obs.get('slept', 0))
            return core.ok(obs['digest'], probes=probes, runs=runs, **kw)
        return viol('unexpected-exit-1')
    if status not in ('ok', 'exit:0'):
        return viol('status:' + status)
    if obs.get('slept', 0) > 0:
        probes['lt_server_boot_wait'] = 1
    if any(k.startswith('http_transient') for k in obs['fired']):
        probes['request_lost_and_repeated'] = 1

    us = units(plan)
    subs = shellscen.submissions(obs)
    ref, err = reference_parts(plan, us)
    runs += len(us)
    if ref is None:
        return core.harness('C14 reference: ' + str(err))

    # ---- 3. submission history --------------------------------------
    # A byte order mark at the very beginning of a text is no word: whether
    # it travels to the proofreader or is split off before is not part of
    # C14 (the reported positions are, and they are judged below on the text
    # as it is in the file). Submitted texts are compared without it.
    def nobom(t):
        return t[1:] if t.startswith('\ufeff') else t
    if any(nobom(sb['text']) != sb['text'] or not nobom(sb['text']).strip()
           for sb in subs):
        probes['bom_in_submission'] = 1
    subs = [dict(sb, text=nobom(sb['text'])) for sb in subs
            if nobom(sb['text']).strip()]
    want = []
    for ui, ((label, tex, eff), parts) in enumerate(zip(us, ref)):
        for lang, text in parts:
            if nobom(text).strip():
                want.append((ui, lang, nobom(text), eff))
    if len(subs) != len(want):
        return viol('submissions:count', got=len(subs), want=len(want),
                    want_langs=[w[1] for w in want],
                    got_langs=[s['language'] for s in subs])
    if len(want) > 1:
        probes['multi_part'] = 1
    def expected_tail(eff):
        tail = list(o['lt_options'])
        ov = eff.get('over') or {}
        for key, name in (('disable', '--disable'), ('enable', '--enable'),
                          ('discat', '--disablecategories'),
                          ('encat', '--enablecategories')):
            if key in ov:
                # server emulation: request fields are appended as options
                tail += [name, ov[key]]
        return tail

    per_unit_subs = [[] for _ in us]
    # whatever the configured rule options are, every part of a unit gets
    # them: parts may differ only through the --ml-disable addition
    seen_opts = {}
    for k, (sub, (ui, lang, text, eff)) in enumerate(zip(subs, want)):
        if not o['judge_rules'] and eff.get('over'):
            # server emulation + conflicting --lt-options: entries matching a
            # request field are removed from the option list, its length is
            # not predictable -> nothing compared
            continue
        if sub['transport'] != 'textgears':
            n_ = norm_submission(sub, len(expected_tail(eff)))
            _, _, why_ = expected_rule_fields(eff, lang, text, eff['lang'])
            common = json.dumps([n_[2], n_[4], n_[5]], sort_keys=True)
            if ('c', ui) in seen_opts and seen_opts[('c', ui)] != common:
                return viol('submissions:options-differ-between-parts', k=k,
                            got=json.loads(common),
                            first_part=json.loads(seen_opts[('c', ui)]))
            seen_opts.setdefault(('c', ui), common)
            if why_ != 'short_main_part':
                dd = json.dumps([n_[1], n_[3]])
                if ('d', ui, why_) in seen_opts and \
                        seen_opts[('d', ui, why_)] != dd:
                    return viol('submissions:options-differ-between-parts',
                                k=k, why=why_, got=json.loads(dd),
                                first_part=json.loads(seen_opts[('d', ui, why_)]))
                seen_opts.setdefault(('d', ui, why_), dd)
    for k, (sub, (ui, lang, text, eff)) in enumerate(zip(subs, want)):
        per_unit_subs[ui].append(sub)
        if us[ui][1].startswith('\ufeff'):
            # with the mark split off, the text starts where the first
            # paragraph starts: white space at the beginning of a part of
            # such a file is not compared
            same = sub['text'].lstrip() == text.lstrip()
        else:
            same = sub['text'] == text
        if not same:
            return viol('submissions:text', k=k, got=sub['text'][:200],
                        want=text[:200])
        n = norm_submission(sub, len(expected_tail(eff)))
        if sub['transport'] == 'textgears':
            # one submission per part; no language, no rule options
            probes['transport_textgears_parts'] = \
                probes.get('transport_textgears_parts', 0) + 1
            continue
        if n[0] != lang:
            return viol('submissions:language', k=k, got=n[0], want=lang)
        if sub['transport'] == 'run' and sub.get('cwd') != o['lt_dir']:
            return viol('submissions:cwd', got=sub.get('cwd'), want=o['lt_dir'])
        if not o['judge_rules']:
            probes['rules_not_judged'] = 1
            continue
        dis, cat, why = expected_rule_fields(eff, lang, text, eff['lang'])
        probes['rules_' + why] = probes.get('rules_' + why, 0) + 1
        ovr = eff.get('over') or {}
        for lab, g, w_, okey in (('disable', n[1], dis, 'disable'),
                                 ('disablecategories', n[3], cat, 'discat')):
            if why == 'ml_addition' and okey in ovr:
                # server emulation: the request field is passed both as the
                # option value (with the --ml-disable addition) and again,
                # without it, among the appended options; which one wins is
                # LanguageTool's business -> not judged (DESIGN.md §6)
                probes['server_ml_addition_unjudged'] = 1
                continue
            if w_ is not None and g != w_:
                return viol('submissions:rule-options', k=k, why=why,
                            option=lab, got=g, want=w_, part=text[:80])
        for lab, g, w_ in (('enable', n[2], eff['enable']),
                           ('enablecategories', n[4], eff['encat'])):
            if w_ is not None and g != w_:
                return viol('submissions:enable-options', k=k, option=lab,
                            got=g, want=w_)
        if sub['transport'] == 'run':
            tail = expected_tail(eff)
            if n[5] != tail:
                return viol('submissions:lt-options', got=n[5], want=tail)
        if eff.get('over'):
            probes['server_field_override'] = 1

    # ---- expected flags per unit -------------------------------------
    gen_words = set()
    if route == 'server':
        for r_ in plan['requests']:
            gen_words.update(docgen.generated_words(r_['doc']['frags']))
    else:
        for n_ in plan['names']:
            gen_words.update(docgen.generated_words(plan['files'][n_]['frags']))
    targets = [t for t in plan['peer']['targets'] if t not in gen_words]
    dups = set(plan['peer'].get('dup', []))
    expected = []       # per unit: list of (word, offset, length)
    for ui, (label, tex, eff) in enumerate(us):
        exp = []
        seen = {}
        for sub in per_unit_subs[ui]:
            for w in targets:
                if w in sub['text']:
                    # unique words: the only occurrence; words of a phrase
                    # repeated verbatim (identical parts): the k-th submission
                    # containing the word belongs to its k-th occurrence
                    k = seen.get(w, 0)
                    seen[w] = k + 1
                    src = -1
                    srcw = SYMBOL_TARGETS.get(w, w)
                    for _ in range(k + 1):
                        src = tex.find(srcw, src + 1)
                        if src < 0:
                            break
                    if src < 0:
                        return core.harness('target %r not in source' % w)
                    if k:
                        probes['identical_parts'] = 1
                    if w in SYMBOL_TARGETS:
                        probes['match_on_control_symbol'] = 1
                    exp.append((w, src, len(w)))
                    if w in dups:
                        exp.append((w, src, len(w)))
                        probes['peer_duplicated'] = 1
            for w in plan['peer'].get('eol', []):
                o_ = sub['text'].find(w)
                if o_ >= 0 and sub['text'][o_ + len(w):o_ + len(w) + 1] == '\n':
                    s_ = tex.find(w)
                    if s_ < 0 or tex[s_ + len(w):s_ + len(w) + 1] != '\n':
                        return core.harness('eol word %r not at a line end' % w)
                    exp.append((w + '+EOL', s_, len(w) + 1))
                    probes['match_ending_with_line_break'] = 1
            for (w1, w2) in plan['peer'].get('phrases', []):
                o1, o2 = sub['text'].find(w1), sub['text'].find(w2)
                if 0 <= o1 < o2 and o2 + len(w2) - o1 < 300:
                    s1, s2 = tex.find(w1), tex.find(w2)
                    if s1 < 0 or s2 < s1:
                        return core.harness('phrase %r not in source' % w1)
                    exp.append((w1 + '+' + w2, s1, s2 + len(w2) - s1))
                    probes['phrase_match'] = 1
                    if '\n' in tex[s1:s2]:
                        probes['match_spanning_lines'] = 1
        expected.append(exp)
    n_exp = sum(len(e) for e in expected)
    if n_exp == 0:
        probes['no_flag'] = 1

    # ---- 1./2./4. per route -------------------------------------------
    got = collect_reports(plan, obs, us)
    if isinstance(got, str):
        return viol('report-format', problem=got)
    for reps in got:
        for r in reps:
            # a match on the character of a control symbol starts at the
            # backslash; marking the backslash alone (as shipped) or the
            # whole symbol are both "that very word": one canonical length
            if r.get('word') in SYMBOL_TARGETS and r.get('length') == 2:
                r['raw_length'] = 2     # what was reported (agreement clause)
                r['length'] = 1
    for ui, (label, tex, eff) in enumerate(us):
        reps = got[ui]
        # order: by position in the LaTeX file
        offs = [r['offset'] for r in reps]
        if any(a > b for a, b in zip(offs, offs[1:])):
            return viol('order', unit=label, offsets=offs)
        sim = [r for r in reps if r.get('word') is not None
               and r['word'] not in gen_words]
        if any(r.get('word') in gen_words for r in reps):
            probes['generated_word_flagged'] = 1
        want_ms = sorted((w, o_, l) for (w, o_, l) in expected[ui])
        # HTML lists overlapping messages separately, with a line number only:
        # pair each with an expected flag of that word in that line which no
        # main-table highlight accounts for
        if any(r.get('overlap') for r in sim):
            remaining = list(want_ms)
            for q in sim:
                if not q.get('overlap'):
                    x = (q['word'], q['offset'], q['length'])
                    if x in remaining:
                        remaining.remove(x)
            starts = shellscen.line_starts(tex)
            for r in [r for r in sim if r.get('overlap')]:
                n = r['line']
                lo = starts[n - 1]
                hi = starts[n] if n < len(starts) else len(tex)
                cand = [x for x in remaining
                        if x[0] == r['word'] and lo <= x[1] < hi]
                if cand:
                    r['offset'] = cand[0][1]
                    remaining.remove(cand[0])
        wlen = {(w, o_): l for (w, o_, l) in want_ms}
        got_ms = sorted((r['word'], r['offset'],
                         r['length'] if r['length'] is not None
                         else wlen.get((r['word'], r['offset']), len(r['word'])))
                        for r in sim)
        if want_ms != got_ms:
            # classify for the minimiser
            wd = {}
            for (w, o_, l) in want_ms:
                wd.setdefault(w, set()).add(o_)
            bad = [(r['word'], r['offset'], sorted(wd.get(r['word'], [])))
                   for r in sim if r['offset'] not in wd.get(r['word'], ())]
            if len(want_ms) != len(got_ms) and not bad:
                return viol('location:count', unit=label, want=len(want_ms),
                            got=len(got_ms))
            if bad:
                w, g, e = bad[0]
                return viol('location:offset', unit=label, word=w, got=g,
                            want=e, got_lc=shellscen.offset_to_lc(tex, max(0, min(g, len(tex)))),
                            want_lc=[shellscen.offset_to_lc(tex, x) for x in e])
            return viol('location:length', unit=label, want=want_ms[:4],
                        got=got_ms[:4])
        for r in sim:
            for p in r.get('problems', []):
                return viol('location:' + p.split(':')[0], unit=label,
                            problem=p, word=r['word'])
        # probes
        for (w, src, l) in expected[ui]:
            line_start = tex.rfind('\n', 0, src) + 1
            if not tex[line_start:src].isascii():
                probes['nonascii_before_word'] = 1
            if '\n' not in tex[src:]:
                probes['match_in_last_line_without_newline'] = 1
    # ---- 5. agreement between the server emulation and the JSON report of
    #         the same text given as a file (every match, also those on
    #         generated text)
    if route == 'server':
        for ui, (label, tex, eff) in enumerate(us):
            req = plan['requests'][ui]
            if req.get('crlf') or any(k.startswith('http_transient')
                                      for k in obs['fired']):
                continue
            targv = [a for a in plan['argv']]
            del targv[targv.index('--as-server'):targv.index('--as-server') + 2]
            if '--language' in targv:
                targv[targv.index('--language') + 1] = eff['lang']
            else:
                targv += ['--language', eff['lang']]
            tfiles = dict(plan['files'])
            tfiles['twin.tex'] = {'text': tex}
            twin = {'kind': 'shell', 'argv': targv + ['--output', 'json',
                                                      'twin.tex'],
                    'files': tfiles, 'peer': plan['peer'], 'names': ['twin.tex']}
            tobs = runner.execute(twin)
            runs += 1
            if runner.is_harness_error(tobs):
                return core.harness('C14 twin: ' + tobs['status'])
            if tobs['status'] not in ('ok', 'exit:0'):
                probes['twin_no_answer'] = 1
                continue
            try:
                tdocs = shellscen.parse_json_report(tobs['stdout'])
                # only what the proofreader flagged (the shell's own
                # --single-letters / --equation-punctuation patterns are fixed
                # by the command-line language when the server starts)
                tw = sorted((m['offset'], m['length'])
                            for m in tdocs[0]['matches']
                            if word_of(m.get('message')) is not None)
            except (ValueError, KeyError, IndexError, TypeError):
                return viol('agreement:twin-report-unparsable', unit=label)
            sv = sorted((r['offset'], r.get('raw_length', r['length']))
                        for r in got[ui] if r.get('word') is not None)
            if sv != tw:
                return viol('agreement:server-vs-json-file', unit=label,
                            server=sv[:8], json_file=tw[:8],
                            text_tail=tex[-60:])
            probes['server_json_agreement_checked'] = \
                probes.get('server_json_agreement_checked', 0) + 1
    if plan['peer'].get('targets') != sorted(plan['peer'].get('targets', [])):
        probes['peer_reordered'] = 1
    if o['repl']:
        probes['replace_rules'] = 1
    nt = None
    if n_exp:
        nt = obs['digest']
    probes['route_' + route] = 1
    if o.get('include'):
        probes['include_chain'] = 1
    if any(sp.get('crlf') for sp in plan['files'].values()) or \
            any(r_.get('crlf') for r_ in plan.get('requests') or []):
        probes['crlf_line_ends'] = 1
    probes['transport_' + plan['transport']] = 1
    probes['flags_judged'] = n_exp
    return core.ok(obs['digest'], probes=probes, runs=runs, nontrivial=nt, **kw)


def collect_reports(plan, obs, us):
    """Normalises the output of any route to, per unit, a list of
    {'offset', 'length' or None, 'word' or None, 'problems': [...]}, in output
    order.  Returns an error string if the output is malformed."""
    route = plan['route']
    out = obs['stdout']
    res = [[] for _ in us]
    index = {label: i for i, (label, _, _) in enumerate(us)}
    if route == 'plain':
        for rec in shellscen.parse_text_report(out):
            if rec['file'] not in index:
                return 'report for unknown file %r' % rec['file']
            ui = index[rec['file']]
            tex = us[ui][1]
            off = shellscen.lc_to_offset(tex, rec['lin'], rec['col'])
            if off is None:
                return 'line %d column %d outside %s' % (rec['lin'], rec['col'],
                                                         rec['file'])
            w = word_of(rec.get('message'))
            r = {'offset': off, 'length': None, 'word': w, 'problems': []}
            if w is not None and '+' not in w:
                ctx, marks = rec.get('ctx', ''), rec.get('marks', '')
                a = marks.find('^')
                n = marks.count('^')
                if a < 0 or marks.strip('^ ') or ctx[a:a + n] != w:
                    r['problems'].append('excerpt: marks %r do not lie under '
                                         'the flagged word in %r' % (marks, ctx))
            res[ui].append(r)
        # numbering restarts per file, 1..n
        return res
    if route == 'json' or route == 'server':
        if route == 'json':
            try:
                docs = shellscen.parse_json_report(out)
            except ValueError:
                return 'stdout is not a sequence of JSON documents'
        else:
            docs = []
            for i, raw in enumerate(obs.get('responses', [])):
                head, _, body = raw.partition('\r\n\r\n')
                if not head.startswith('HTTP/1.0 200') and \
                        not head.startswith('HTTP/1.1 200'):
                    return 'response %d: %r' % (i, head[:60])
                try:
                    # the body travels as bytes: ASCII with \u escapes today,
                    # UTF-8 is just as good
                    docs.append(json.loads(body.encode('latin-1').decode('utf-8')))
                except ValueError:
                    return 'response %d: body is not JSON' % i
        if len(docs) != len(us):
            return '%d JSON documents for %d units' % (len(docs), len(us))
        for ui, doc in enumerate(docs):
            tex = us[ui][1]
            for m in doc.get('matches', []):
                off, ln = m.get('offset'), m.get('length')
                if not isinstance(off, int) or not isinstance(ln, int):
                    return 'offset/length missing'
                w = word_of(m.get('message'))
                r = {'offset': off, 'length': ln, 'word': w, 'problems': []}
                if w is not None and route == 'json':
                    pr = m.get('priv') or {}
                    fy = tex.count('\n', 0, off)
                    fx = off - (tex.rfind('\n', 0, off) + 1)
                    end = off + ln - 1
                    ty = tex.count('\n', 0, end)
                    tx = end - (tex.rfind('\n', 0, end) + 1) + 1
                    if (pr.get('fromy'), pr.get('fromx'), pr.get('toy'),
                            pr.get('tox')) != (fy, fx, ty, tx):
                        r['problems'].append('priv: %r does not denote offset '
                                             '%d length %d' % (pr, off, ln))
                res[ui].append(r)
        return res
    if route in ('xml', 'xml-b'):
        try:
            blocks = shellscen.parse_xml_report(out)
        except Exception:
            return 'xml not well-formed'
        if len(blocks) != len(us):
            return '%d <matches> blocks for %d files' % (len(blocks), len(us))
        byt = route == 'xml-b'
        for ui, errs in enumerate(blocks):
            tex = us[ui][1]
            lines = tex.split('\n')
            starts = shellscen.line_starts(tex)
            for a in errs:
                try:
                    fy, fx, ty, tx = (int(a['fromy']), int(a['fromx']),
                                      int(a['toy']), int(a['tox']))
                except (KeyError, ValueError):
                    return 'bad coordinates'
                if not (0 <= fy < len(lines) and 0 <= ty < len(lines)):
                    return 'line outside file'

                def col(y, x):
                    if not byt:
                        return x
                    # (a column may point behind the line break of the line)
                    b = (lines[y] + '\n').encode('utf-8')[:x]
                    try:
                        return len(b.decode('utf-8'))
                    except UnicodeDecodeError:
                        return -10 ** 6
                off = starts[fy] + col(fy, fx)
                end = starts[ty] + col(ty, tx)
                w = word_of(a.get('msg'))
                r = {'offset': off, 'length': end - off, 'word': w,
                     'problems': []}
                if w is not None and end > off:
                    # the end is reported as "line and column behind the last
                    # character", exactly as in the JSON output (priv.toy/tox):
                    # a match ending with a line break ends on THAT line
                    last = end - 1
                    ey = tex.count('\n', 0, last)
                    enl = tex.rfind('\n', 0, last) + 1
                    ex = (len(tex[enl:last + 1].encode('utf-8')) if byt
                          else last - enl + 1)
                    if (ty, tx) != (ey, ex):
                        r['problems'].append(
                            'xml-end: toy/tox=%r, the JSON convention gives %r'
                            % ((ty, tx), (ey, ex)))
                if w is not None:
                    ct = a.get('context', '')
                    try:
                        co, cl = int(a['contextoffset']), int(a['errorlength'])
                    except (KeyError, ValueError):
                        co = cl = -1
                    if byt:
                        frag = ct.encode('utf-8')[co:co + cl].decode('utf-8',
                                                                      'replace')
                    else:
                        frag = ct[co:co + cl]
                    if frag != w and '+' not in w:
                        r['problems'].append('excerpt: context offset/length '
                                             'denote %r, not the flagged word'
                                             % frag)
                res[ui].append(r)
        return res
    if route == 'html':
        if not out.startswith('<html>'):
            return 'no html page'
        parts = shellscen.parse_html_report(out)
        if [p['file'] for p in parts] != [u[0] for u in us]:
            return 'html parts %r' % [p['file'] for p in parts]
        for ui, part in enumerate(parts):
            tex = us[ui][1]
            lines = tex.split('\n')
            starts = shellscen.line_starts(tex)
            nreps = 0
            for n, cell in part['rows']:
                if n is None:
                    continue
                if not 1 <= n <= len(lines):
                    return 'row number outside file'
                src = lines[n - 1].replace('\t', ' ' * 8)
                if shellscen.cell_text(cell) != src:
                    return 'row %d does not show the source line' % n
                for title, hl, before in shellscen.cell_spans(cell):
                    # column in the real line (tabs were widened to 8 blanks)
                    colx = len(before)
                    if '\t' in lines[n - 1]:
                        k = 0
                        width = 0
                        while k < len(lines[n - 1]) and width < colx:
                            width += 8 if lines[n - 1][k] == '\t' else 1
                            k += 1
                        colx = k
                    w = word_of(title)
                    tl = re.search(r'\nLine (\d+)(\+?): >>>', title)
                    prev = res[ui][-1] if res[ui] else None
                    if (prev is not None and colx == 0
                            and prev.get('title') == title
                            and prev.get('ends_line') == n - 1):
                        # a match spanning a line break: its span is repeated
                        # in the next row; one report, length includes '\n'
                        prev['length'] += 1 + len(hl)
                        prev['ends_line'] = (n if colx + len(hl) ==
                                             len(lines[n - 1]) else None)
                        continue
                    r = {'offset': starts[n - 1] + colx, 'length': len(hl),
                         'word': w, 'problems': [], 'title': title,
                         'ends_line': (n if colx + len(hl) == len(lines[n - 1])
                                       else None)}
                    if w is not None and '+' in w:
                        if not tl or int(tl.group(1)) != n:
                            r['problems'].append('highlight: title names line '
                                                 '%s, row is %d'
                                                 % (tl and tl.group(1), n))
                    elif w is not None:
                        if hl != w and not (
                                w in SYMBOL_TARGETS and hl in (
                                    SYMBOL_TARGETS[w], SYMBOL_TARGETS[w][0])):
                            r['problems'].append('highlight: marked %r instead '
                                                 'of the flagged word' % hl)
                        if not tl or int(tl.group(1)) != n:
                            r['problems'].append('highlight: title names line '
                                                 '%s, row is %d'
                                                 % (tl and tl.group(1), n))
                        if tl and tl.group(2):
                            r['problems'].append('highlight: position marked '
                                                 'as unsure for copied text')
                    res[ui].append(r)
                    nreps += 1
            last_title = None
            last_row = None
            for n, cell in part['overlaps']:
                if not 1 <= n <= len(lines):
                    return 'overlap row number outside file'
                # a row of its own continues a message only if it is the next
                # line (the title names the first line of a message, so another
                # message with the same title cannot start there)
                if last_row is not None and n != last_row + 1:
                    last_title = None
                for title, hl, before in shellscen.cell_spans(cell):
                    w = word_of(title)
                    if title == last_title and res[ui] and \
                            res[ui][-1].get('overlap'):
                        # next line of a multi-line overlapping message (in
                        # the same cell, or in a numbered row of its own)
                        res[ui][-1]['length'] += 1 + len(hl)
                        last_row = n
                        continue
                    last_title = title
                    last_row = n
                    # an overlapping message is listed separately with its
                    # line number only (a multi-line one is one span here, its
                    # line breaks included); locate it through the line number
                    first = hl.split('\n')[0]
                    c = lines[n - 1].find(first) if first else -1
                    r = {'offset': (starts[n - 1] + c) if c >= 0 else -1,
                         'length': len(hl), 'word': w, 'problems': [],
                         'overlap': True, 'line': n}
                    if w is not None and '+' not in w and hl != w and not (
                            w in SYMBOL_TARGETS and hl in (
                                SYMBOL_TARGETS[w], SYMBOL_TARGETS[w][0])):
                        r['problems'].append('highlight: overlap marked %r '
                                             'instead of the flagged word' % hl)
                    res[ui].append(r)
                    nreps += 1
            # overlaps are appended after the table: restore file order for
            # the ordering oracle (it is judged on the main table only)
            main = [r for r in res[ui] if not r.get('overlap')]
            ovl = [r for r in res[ui] if r.get('overlap')]
            offs = [r['offset'] for r in main]
            if any(a > b for a, b in zip(offs, offs[1:])):
                return 'html: highlights not in file order'
            res[ui] = sorted(main + ovl, key=lambda r: r['offset'])
        return res
    return 'unknown route'


# ---------------------------------------------------------------------
#   batch
# ---------------------------------------------------------------------

def run(seed, tier, budget_s):
    batch = core.Batch(PID, seed, tier, LEVEL)
    n = 2600 if tier == 'quick' else 120000
    step = 800
    i = 0
    while i < n and batch.elapsed() < budget_s:
        plans = [gen_plan(core.run_rng(seed, PID, j), j)
                 for j in range(i, min(n, i + step))]
        _res = core.map_plans(MOD, plans)
        for p, r in zip(plans, _res):
            batch.add(p, r)
            if r['verdict'] == 'ok' and r.get('nontrivial') and \
                    len(batch.samples) < 3 and p['route'] != 'server':
                batch.samples.append({
                    'argv': p['argv'], 'transport': p['transport'],
                    'peer_targets': p['peer']['targets'][:6],
                    'first_file_head': docgen.file_text(
                        p['files'][p['names'][0]])[:300]})
        if i == 0:
            core.cross_validate(MOD, batch, list(zip(plans, _res)),
                                12 if tier == 'quick' else 60)
        i += step
    rule = ('One case = one seeded scenario plan: 1-3 generated LaTeX documents '
            '(unique words, footnotes/captions, non-ASCII, multi-language '
            'splits, --replace rules, latin-1 files, --plain-input), an output '
            'route (plain/json/xml/xml-b/html/--as-server), a transport '
            '(subprocess, --server my with seeded boot delay under the '
            'simulated clock, --server lt), rule options, and a reactive fake '
            'proofreader flagging a seeded subset of the literal words in '
            'seeded order with duplicates.  Non-trivial = at least one flagged '
            'literal word was judged against source.find(word); distinct = '
            'distinct event-log digests of such runs.')
    assumptions = [
        'ground truth restricted to literally copied unique words in the construct catalogue of sim/docgen.py (validated against the unchanged tree)',
        'expected parts come from an independent run of the filter in a pristine process (the filter itself is not judged here)',
        'rule options of short main-language parts and with conflicting --lt-options are not judged (statement silent)',
        'runs in which the simulated LT server never answers are counted (no_answer) and not judged',
    ]
    components = {
        'real': ['yalafi.shell.shell module body', 'proofreader.py', 'shell/utils.py',
                 'gentext/genjson/genxml/genhtml', 'server.py', 'checks.py',
                 'filter (tex2txt, parser, ...)', 'http.server', 'socketserver',
                 'urllib.parse', 'json', 'argparse'],
        'stubbed': ['subprocess.run/Popen', 'urllib.request.urlopen',
                    'socket.socket (in-memory listening socket and connections)',
                    'serve_forever (simulator accept loop)', 'time.sleep/time.time',
                    'builtins.open for relative paths'],
    }
    return core.finish(__import__(MOD, fromlist=['x']), batch, rule,
                       assumptions, components)


# ---------------------------------------------------------------------
#   shrinking
# ---------------------------------------------------------------------

def _docs(plan):
    if plan['route'] == 'server':
        return [('req', i) for i in range(len(plan['requests']))]
    return [('file', n) for n in plan['names']]


def _get_frags(plan, ref):
    if ref[0] == 'req':
        return plan['requests'][ref[1]]['doc']['frags']
    return plan['files'][ref[1]]['frags']


def _set_frags(plan, ref, frags):
    if ref[0] == 'req':
        plan['requests'][ref[1]]['doc']['frags'] = frags
    else:
        plan['files'][ref[1]]['frags'] = frags


def _prune_targets(plan):
    words = set()
    for ref in _docs(plan):
        words.update(docgen.literal_words(_get_frags(plan, ref)))
    plan['peer']['targets'] = [w for w in plan['peer']['targets'] if w in words]
    plan['peer']['dup'] = [w for w in plan['peer'].get('dup', []) if w in words]
    return plan


def shrink(plan):
    # first of all: options back from the config file onto the command line
    cfgm = plan['opts'].get('cfg_mode')
    if cfgm in ('split', 'overridden', 'no_config') and \
            '.yalafi.shell' in plan['files']:
        c = copy.deepcopy(plan)
        lines = docgen.file_text(c['files'].pop('.yalafi.shell')).split('\n')
        if cfgm == 'split':
            extra = []
            for ln in lines:
                if ln.strip():
                    extra += ln.strip().split(maxsplit=1)
            c['argv'] = extra + c['argv']
        elif cfgm == 'no_config':
            c['argv'] = [a for a in c['argv'] if a != '--no-config']
        c['opts']['cfg_mode'] = 'none'
        yield c
        return      # nothing else until the configuration is a plain one
    refs = _docs(plan)
    # drop whole documents
    if len(refs) > 1:
        for ref in refs:
            c = copy.deepcopy(plan)
            if ref[0] == 'req':
                del c['requests'][ref[1]]
            else:
                c['names'].remove(ref[1])
                c['argv'] = [a for a in c['argv'] if a != ref[1]]
                del c['files'][ref[1]]
            yield _prune_targets(c)
    # drop fragments (halves first)
    for ref in refs:
        frs = _get_frags(plan, ref)
        if len(frs) > 1:
            half = len(frs) // 2
            for lo, hi in ((0, half), (half, len(frs))):
                c = copy.deepcopy(plan)
                _set_frags(c, ref, copy.deepcopy(frs[lo:hi]))
                yield _prune_targets(c)
            if len(frs) <= 10:
                for i in range(len(frs)):
                    c = copy.deepcopy(plan)
                    _set_frags(c, ref, copy.deepcopy(frs[:i] + frs[i + 1:]))
                    yield _prune_targets(c)
    # fewer targets
    t = plan['peer']['targets']
    if len(t) > 1:
        half = len(t) // 2
        for sel in (t[:half], t[half:]):
            c = copy.deepcopy(plan)
            c['peer']['targets'] = sel
            yield _prune_targets(c)
        if len(t) <= 8:
            for i in range(len(t)):
                c = copy.deepcopy(plan)
                c['peer']['targets'] = t[:i] + t[i + 1:]
                yield _prune_targets(c)
    if plan['peer'].get('dup'):
        c = copy.deepcopy(plan)
        c['peer']['dup'] = []
        yield c
    # simpler transport
    if plan['transport'] in ('my', 'lt') and '--server' in plan['argv']:
        c = copy.deepcopy(plan)
        c['transport'] = 'run'
        a = c['argv']
        if '--server' in a:
            i = a.index('--server')
            del a[i:i + 2]
        if '--lt-server-options' in a:
            i = a.index('--lt-server-options')
            del a[i:i + 2]
        c['peer']['http'] = {}
        yield c
    if plan['transport'] == 'textgears' and '--textgears' in plan['argv']:
        c = copy.deepcopy(plan)
        c['transport'] = 'run'
        i = c['argv'].index('--textgears')
        del c['argv'][i:i + 2]
        c['peer']['http'] = {}
        yield c
    if '--multi-language' in plan['argv']:
        c = copy.deepcopy(plan)
        c['argv'].remove('--multi-language')
        c['opts']['ml'] = False
        c['opts']['ml_flag'] = False
        yield c
    # a long line of plain words: keep the half that still fails
    for ref in refs:
        frs = _get_frags(plan, ref)
        for i, fr in enumerate(frs):
            if fr['k'] in ('longline', 'plain') and len(fr['w']) > 3:
                ws = fr['w']
                for part in (ws[:len(ws) // 2], ws[len(ws) // 2:]):
                    c = copy.deepcopy(plan)
                    nf = docgen.frag(fr['k'], ' '.join(part) + '.\n', part)
                    nf['lang'] = fr.get('lang')
                    cf = _get_frags(c, ref)
                    cf[i] = nf
                    yield _prune_targets(c)
    # drop options that the oracle tracks in plan['opts'] consistently
    for opt, key, dflt, nargs in (
            ('--ml-disable', 'ml_disable', '', 1),
            ('--ml-disablecategories', 'ml_discat', '', 1),
            ('--ml-rule-threshold', 'ml_rule_thresh', 2, 1),
            ('--ml-continue-threshold', 'ml_cont_thresh', 2, 1),
            ('--disable', 'disable', 'WHITESPACE_RULE', 1),
            ('--enable', 'enable', '', 1),
            ('--disablecategories', 'discat', '', 1),
            ('--enablecategories', 'encat', '', 1),
            ('--lt-options', 'lt_options', [], 1),
            ('--equation-punctuation', None, None, 1),
            ('--single-letters', None, None, 1),
            ('--context', None, None, 1),
            ('--link', None, None, 0)):
        a = plan['argv']
        if opt in a:
            c = copy.deepcopy(plan)
            i = c['argv'].index(opt)
            del c['argv'][i:i + 1 + nargs]
            if key:
                c['opts'][key] = dflt
                if key == 'lt_options':
                    c['opts']['judge_rules'] = True
            yield c
    if plan['opts'].get('repl') and '--replace' in plan['argv']:
        c = copy.deepcopy(plan)
        i = c['argv'].index('--replace')
        del c['argv'][i:i + 2]
        c['opts']['repl'] = None
        yield c
