#!/bin/bash
# usage: run_mutant.sh <name> [quick budget seconds]   (scratch copy under /tmp, removed afterwards)
set -u
cd "$(dirname "$0")/.."
name=$1; budget=${2:-120}
d=$(mktemp -d /tmp/yalafi-mut-XXXXXX)
trap 'rm -rf "$d"' EXIT
mkdir -p $d/repo && cp -r /repo/yalafi $d/repo/yalafi
/venv/bin/python - "$name" "$d/repo" <<'PY'
import sys
sys.path.insert(0, 'selftest')
import mutants
name, root = sys.argv[1:3]
m = [x for x in mutants.MUTANTS if x[1] == name][0]
p = root + '/' + m[2]
s = open(p, newline='').read()
olds, news = (m[3], m[4]) if isinstance(m[3], list) else ([m[3]], [m[4]])
for o, n in zip(olds, news):
    assert s.count(o) == 1, (name, o, s.count(o))
    s = s.replace(o, n)
open(p, 'w', newline='').write(s)
print('mutant', name, 'targets', m[0])
PY
pid=$(/venv/bin/python -c "
import sys; sys.path.insert(0,'selftest'); import mutants
print([x for x in mutants.MUTANTS if x[1]=='$name'][0][0])")
VERIF_REPO=$d/repo VERIF_BUDGET_S=$budget VERIF_EVIDENCE_DIR=$d/evidence ./check $pid --tier quick 2>&1 | grep -E "^VIOLATION|violation class|exit [0-9]" | head -5
