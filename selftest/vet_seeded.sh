#!/bin/bash
# usage: vet_seeded.sh <tag> <pid> <name>  : confirm a sub-agent's change (tests pass, demo fails with / passes without),
# then store it under /verif/seeded/<name>/ and run the property's quick check against the changed tree.
set -u
tag=$1; pid=$2; name=$3
wt=/tmp/wt-$tag; out=/tmp/out-$tag
cd $wt || exit 9
echo "--- diff stat"; git diff --stat | tail -3
echo "--- tests with change"; /venv/bin/python -m pytest -q -p no:cacheprovider --timeout=900 2>&1 | tail -1
echo "--- demo with change (expect exit 1)"; (cd $wt && timeout 300 /venv/bin/python $out/demo.py $wt >/tmp/demo-$tag.log 2>&1; echo "exit $?"; tail -3 /tmp/demo-$tag.log)
# (no git stash: the stash is shared between worktrees)
git diff > /tmp/cur-$tag.diff
cmp -s /tmp/cur-$tag.diff $out/patch.diff || echo "!!! worktree diff differs from the agent's patch.diff"
git apply -R /tmp/cur-$tag.diff
echo "--- demo without change (expect exit 0)"; (cd $wt && timeout 300 /venv/bin/python $out/demo.py $wt >/tmp/demo-$tag.log 2>&1; echo "exit $?"; tail -2 /tmp/demo-$tag.log)
git apply /tmp/cur-$tag.diff
mkdir -p /verif/seeded/$name
cp /tmp/cur-$tag.diff /verif/seeded/$name/patch.diff; rm -f /tmp/cur-$tag.diff
cp $out/demo.py /verif/seeded/$name/demo.py
cp $out/meta.json /verif/seeded/$name/meta.agent.json
echo "--- my check against the changed tree"
cd /verif && VERIF_REPO=$wt VERIF_EVIDENCE_DIR=/tmp/ev-$tag ./check $pid --tier quick 2>&1 | grep -E "^VIOLATION|violation class|detail|exit [0-9]" | cut -c1-600
rm -rf /tmp/ev-$tag /tmp/demo-$tag.log
