"""Prints the prompt given to an independent sub-agent that writes one seeded
breaking change (usage: agent_prompt.py <property id> <tag> <focus text>).
The agent sees only the property text (from properties.jsonl), this prompt and
its own scratch worktree /tmp/wt-<tag> - nothing from /verif."""
import json
import sys

pid, tag, focus = sys.argv[1], sys.argv[2], sys.argv[3]
prop = None
for l in open('/verif/properties.jsonl'):
    p = json.loads(l)
    if p['id'] == pid:
        prop = ("Property %s: %s\n\nStatement: %s\n\nQuantified over: %s\n\nWhy the existing tests cannot settle it: %s\n\n"
                "Code it is anchored in: %s\nMechanisms: %s\nObserved at: %s\n" % (
                    p['id'], p['title'], p['statement'], p['quantifier']['text'], p['why_tests_cant'],
                    ', '.join(p['anchors']['files']),
                    '; '.join('%s (%s)' % (m['name'], m['where']) for m in p['anchors']['mechanism']),
                    '; '.join(p['anchors'].get('observe_at') or [])))
print(f"""You are helping to evaluate a verification harness by writing ONE realistic, subtle bug (a "seeded change") for the open-source project YaLafi (a pure-Python LaTeX-to-plain-text filter plus a LanguageTool proofreading shell).

Your private scratch copy of the repository is the git worktree /tmp/wt-{tag} . Work ONLY inside /tmp/wt-{tag} (and /tmp/out-{tag} for your deliverables). Do NOT read, list or touch /verif or /repo or any other /tmp/wt-* directory - your work must be independent of anything there.

The property your change must break:

{prop}

Focus for this task: {focus}

Requirements for the change:
1. It is a small, plausible source change to files under /tmp/wt-{tag}/yalafi/ (something that could slip through code review: a refactoring, an optimisation/cache, a "simplification", a boundary condition, two edits that each look fine alone). Note: most source files use CRLF line endings - preserve them (edit with Python using open(path, newline='') or a tool that keeps line endings; check `git diff --stat` shows only the few lines you meant to change).
2. The code must still import/compile and the COMPLETE existing test suite must still pass with your change. Two tests start an HTTP server on the fixed port 8081 and other people may run the same suite on this machine at the same time, so run the suite inside a private network namespace:
   cd /tmp/wt-{tag} && unshare -rn sh -c "ip link set lo up; /venv/bin/python -m pytest -q -p no:cacheprovider --timeout=900"
   (454 tests, about 30-60 s). Do not edit anything under tests/.
3. It must break the property above in a way that needs something SPECIFIC to manifest - a particular sequence of operations/requests, a fault or odd answer at a particular point, an unusual input or option combination, a particular file-inclusion structure, a particular timing of a server start, etc. - NOT something ordinary use or the simplest example would expose at once.
4. Provide a demonstration: a small stand-alone Python program /tmp/out-{tag}/demo.py taking the repository root as its first argument (it must put that root first on sys.path / use it as cwd, so it can be run against the changed and the unchanged tree). It must exit 0 (printing PASS) on the unchanged tree and exit 1 (printing FAIL and what was observed) on the changed tree. The demo may run the shell via `python -m yalafi.shell` with a fake proofreader script passed by --lt-command (see tests/test_shell_cmd/run_shell.py for how the tests do that; the fake is called as `<cmd> --json --encoding utf-8 --language <lang> [...] -` with the plain text on stdin and must print LanguageTool-style JSON), or call yalafi.tex2txt.tex2txt(...) directly, as appropriate for the property. Keep any temp files it needs inside a tempfile.TemporaryDirectory.

Deliverables (create the directory /tmp/out-{tag}):
- /tmp/out-{tag}/patch.diff  : output of `git -C /tmp/wt-{tag} diff` (must apply with `git apply` to a clean checkout of the same commit)
- /tmp/out-{tag}/demo.py     : the demonstration program
- /tmp/out-{tag}/meta.json   : {{"property": "{pid}", "summary": "...what was changed...", "needs_to_manifest": "...the specific input / sequence / fault needed...", "ran": ["...commands you ran and their outcome..."]}}

Before finishing, verify yourself: (a) full test suite passes with the change; (b) demo.py fails (exit 1) on /tmp/wt-{tag} with the change; (c) undo your change with `git -C /tmp/wt-{tag} apply -R /tmp/out-{tag}/patch.diff`, check that demo.py passes (exit 0) on the unchanged tree, then re-apply with `git -C /tmp/wt-{tag} apply /tmp/out-{tag}/patch.diff`. NEVER use `git stash` (the stash is shared with other worktrees of this repository). Leave the change applied in the worktree when you finish. Do not commit. Report briefly what you changed and the verification outcomes.""")
