"""Sensitivity set: small realistic changes to YaLafi that compile and (as far
as checked) pass the repository's tests, each breaking one claimed property.
(file, old, new) are applied to a scratch copy of the repository; `old` must
occur exactly once.  Used by `./check selftest sensitivity`."""

MUTANTS = [
 # ---------------- C14
 ('C14', 'm14_no_part_shift', 'yalafi/shell/proofreader.py',
  "m['offset'] = json_get(m, 'offset', int) + len(plain_tot)",
  "m['offset'] = json_get(m, 'offset', int)"),
 ('C14', 'm14_delim_pad_one', 'yalafi/shell/proofreader.py',
  "charmap_tot += [charmap_tot[-1]] * len(delim)",
  "charmap_tot += [charmap_tot[-1]]"),
 ('C14', 'm14_no_sort', 'yalafi/shell/proofreader.py',
  "    matches_tot.sort(key=f)", "    pass"),
 ('C14', 'm14_sort_plain_offset', 'yalafi/shell/proofreader.py',
  "        return abs(charmap_tot[beg])", "        return beg"),
 ('C14', 'm14_map_off_by_one', 'yalafi/shell/utils.py',
  "    offset = abs(charmap[beg]) - 1", "    offset = abs(charmap[beg])"),
 ('C14', 'm14_text_col', 'yalafi/shell/gentext.py',
  "        col = offset - nl + 1", "        col = offset - nl"),
 ('C14', 'm14_json_tox', 'yalafi/shell/genjson.py',
  "        priv['tox'] = end - nl + 1", "        priv['tox'] = end - nl"),
 ('C14', 'm14_xml_bytecol', 'yalafi/shell/genxml.py',
  "            fromx = len(tex[nl:beg].encode())", "            fromx = len(tex[nl:beg])"),
 ('C14', 'm14_html_line', 'yalafi/shell/genhtml.py',
  "        h.lin = h.beglin", "        h.lin = h.beglin + (1 if h.beglin > 3 else 0)"),
 ('C14', 'm14_main_lang_for_all', 'yalafi/shell/proofreader.py',
  "                matches = run_languagetool(plain, lang,",
  "                matches = run_languagetool(plain, language,"),
 ('C14', 'm14_rule_thresh_lt', 'yalafi/shell/proofreader.py',
  "and len(plain.split()) <= cmdline.ml_rule_threshold)",
  "and len(plain.split()) < cmdline.ml_rule_threshold)"),
 ('C14', 'm14_server_ignores_field', 'yalafi/shell/server.py',
  "        enable = requ.get('enabledRules', [''])[0]", "        enable = ''"),
 ('C14', 'm14_len_end_clamp', 'yalafi/shell/utils.py',
  "    length = abs(charmap[end]) - abs(charmap[beg]) + 1",
  "    length = abs(charmap[end]) - abs(charmap[beg])"),
 ('C14', 'm14_http_drops_enable', 'yalafi/shell/proofreader.py',
  "            data['enabledRules'] = enable", "            pass"),
 # ---------------- C15
 ('C15', 'm15_offset_unchecked', 'yalafi/shell/proofreader.py',
  "        if beg < 0 or beg >= len(charmap_tot):", "        if False:"),
 ('C15', 'm15_no_clamp', 'yalafi/shell/utils.py',
  "    end = min(max(0, beg + m['length'] - 1), len(charmap) - 1)",
  "    end = max(0, beg + m['length'] - 1)"),
 ('C15', 'm15_html_range', 'yalafi/shell/genhtml.py',
  "        if beg < 0 or end < 0 or beg >= len(charmap) or end >= len(charmap):",
  "        if beg < 0 or end < 0 or beg >= len(charmap):"),
 ('C15', 'm15_plain_index', 'yalafi/shell/gentext.py',
  "        txt = json_get(cont, 'text', str)", "        txt = cont['text']"),
 ('C15', 'm15_json_except_narrow', 'yalafi/shell/proofreader.py',
  None, None),   # placeholder replaced below (two occurrences)
 ('C15', 'm15_length_unchecked', 'yalafi/shell/proofreader.py',
  "                json_get(m, 'length', int)\r\n", ""),
]
MUTANTS = [m for m in MUTANTS if m[3] is not None]
