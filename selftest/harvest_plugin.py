"""pytest plugin that records every LaTeX input the repository tests hand to the
filter (usage: cd /repo && PYTHONPATH=/verif/selftest python -m pytest -p harvest_plugin
--ignore=tests/test_shell --ignore=tests/test_shell_cmd; writes /tmp/harv/raw.json,
from which sim/corpus_c17.json was made)."""
import json, atexit
import yalafi
from yalafi import tex2txt as _t
from yalafi import parser as _p
REC = []
_orig_parse = _p.Parser.parse
_depth = [0]
def parse(self, latex, *a, **k):
    if _depth[0] == 0 and isinstance(latex, str):
        REC.append({'latex': latex, 'lang': getattr(self.parms, 'language', None), 'via': 'parse'})
    _depth[0] += 1
    try:
        return _orig_parse(self, latex, *a, **k)
    finally:
        _depth[0] -= 1
_p.Parser.parse = parse
_orig_t = _t.tex2txt
def tex2txt(latex, opts, *a, **k):
    o = {kk: getattr(opts, kk) for kk in ('dcls', 'pack', 'extr', 'lang', 'seqs', 'nosp', 'unkn', 'char')}
    o['repl'] = None if opts.repl is None else 'set'
    REC.append({'latex': latex, 'opts': o, 'ml': bool(k.get('multi_language')), 'via': 'tex2txt'})
    _depth[0] += 1
    try:
        return _orig_t(latex, opts, *a, **k)
    finally:
        _depth[0] -= 1
_t.tex2txt = tex2txt
def pytest_sessionfinish(session, exitstatus):
    json.dump(REC, open('/tmp/harv/raw.json', 'w'))
