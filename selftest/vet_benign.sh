#!/bin/bash
# usage: vet_benign.sh <tag> <name> [checks...] : a sub-agent's property-preserving change; every quick check must stay silent.
set -u
tag=$1; name=$2; shift 2
checks=${*:-C08 C14 C15 C17 C18}
wt=/tmp/wt-$tag; out=/tmp/out-$tag
cd $wt || exit 9
echo "--- diff stat"; git diff --stat | tail -2
echo "--- tests with change"; unshare -rn sh -c "ip link set lo up; /venv/bin/python -m pytest -q -p no:cacheprovider --timeout=900" 2>&1 | tail -1
mkdir -p /verif/benign/$name
git diff > /verif/benign/$name/patch.diff
cp $out/meta.json /verif/benign/$name/meta.agent.json
cd /verif
for c in $checks; do
  VERIF_REPO=$wt VERIF_EVIDENCE_DIR=/tmp/ev-$tag ./check $c --tier quick 2>&1 | grep -E "^VIOLATION|violation class|detail|HARNESS|tier=" | cut -c1-700
done
