"""Prints the prompt for a sub-agent that writes one BENIGN change: realistic,
behaviour-touching where the property allows it, but NOT breaking the property.
Used to probe the checks for false alarms (usage: <property id> <tag> <focus>)."""
import json
import sys

pid, tag, focus = sys.argv[1], sys.argv[2], sys.argv[3]
prop = None
for l in open('/verif/properties.jsonl'):
    p = json.loads(l)
    if p['id'] == pid:
        prop = ("Property %s: %s\n\nStatement: %s\n\nQuantified over: %s\n\n"
                "Code it is anchored in: %s\nMechanisms: %s\nObserved at: %s\n" % (
                    p['id'], p['title'], p['statement'], p['quantifier']['text'],
                    ', '.join(p['anchors']['files']),
                    '; '.join('%s (%s)' % (m['name'], m['where']) for m in p['anchors']['mechanism']),
                    '; '.join(p['anchors'].get('observe_at') or [])))
print(f"""You are helping to evaluate a verification harness for the open-source project YaLafi (a pure-Python LaTeX-to-plain-text filter plus a LanguageTool proofreading shell). The harness must NOT raise an alarm on code where a property still holds. Your job: write ONE realistic source change that a maintainer might well make and that keeps the following property TRUE, although it touches the code the property is anchored in.

Your private scratch copy of the repository is the git worktree /tmp/wt-{tag} . Work ONLY inside /tmp/wt-{tag} (and /tmp/out-{tag} for your deliverables). Do NOT read, list or touch /verif or /repo or any other /tmp/wt-* directory.

The property that must KEEP holding:

{prop}

Kind of change wanted for this task: {focus}

Requirements:
1. A non-trivial, plausible change to files under /tmp/wt-{tag}/yalafi/ (not just a comment or a rename of a local variable): restructure the code the property depends on, change behaviour that the property statement does not constrain, or add a small feature - the bolder the better, as long as you can argue that the property statement above still holds for every input / answer / history it quantifies over. Most source files use CRLF line endings - preserve them (edit with Python using open(path, newline='')).
2. The code must import/compile and the COMPLETE existing test suite must pass (two tests use the fixed port 8081, so run it in a private network namespace):
   cd /tmp/wt-{tag} && unshare -rn sh -c "ip link set lo up; /venv/bin/python -m pytest -q -p no:cacheprovider --timeout=900"
   Do not edit anything under tests/. If a test pins behaviour you wanted to change, choose another change.
3. Exercise your change yourself on a few non-trivial examples relevant to the property (several files / parts / requests / malformed answers as appropriate) to convince yourself that the property still holds.

Deliverables (create the directory /tmp/out-{tag}):
- /tmp/out-{tag}/patch.diff : output of `git -C /tmp/wt-{tag} diff`
- /tmp/out-{tag}/meta.json  : {{"property": "{pid}", "summary": "...what was changed...", "why_property_still_holds": "...your argument...", "behaviour_changed": "...what observable behaviour (if any) differs from before...", "ran": ["...commands and outcomes..."]}}

NEVER use `git stash` (shared between worktrees). Leave the change applied in the worktree. Do not commit. Report briefly what you changed and why the property still holds.""")
